(* C09 lifted to operation sequences of any length (both write orders). *)
From Coq Require Import List NArith Arith Lia Bool.
From MDW Require Import Bytes DirSection DirSectionProofs.
Import ListNotations.
Local Open Scope nat_scope.

Definition dir_flushed (s : dirsec) : Prop := ds_sec s + 12 * ds_n s <= ds_last s.

(* the grammar of the writers: every emitted entry is 12 bytes and at most [k] entries follow *)
Fixpoint fits (k : nat) (ops : list op) : Prop :=
  match ops with
  | [] => True
  | Grow _ :: t => fits k t
  | Flush None :: t => fits k t
  | Flush (Some e) :: t => length e = 12 /\ 0 < k /\ fits (k - 1) t
  end.

Lemma wtf_fields ef buf s d e :
  let '(buf', s', d') := write_to_file ef buf s d e in
  ds_sec s' = ds_sec s /\ ds_n s' = ds_n s /\ ds_start s' = ds_start s /\
  ds_idx s' = (match e with Some _ => S (ds_idx s) | None => ds_idx s end).
Proof.
  unfold write_to_file, flush, dump_dir_entry, set_last. destruct e as [x|]; [destruct ef|]; cbn; auto.
Qed.

Lemma wtf_len ef buf s d e :
  let '(buf', s', d') := write_to_file ef buf s d e in
  (forall x, e = Some x -> ds_sec s + 12 * ds_idx s + length x <= length buf) -> length buf' = length buf.
Proof.
  unfold write_to_file, flush, dump_dir_entry, set_last. destruct e as [x|]; [destruct ef|]; cbn; intro H;
    try reflexivity; apply update_length; apply (H x eq_refl).
Qed.

Theorem run_ops_inv ef pre post : forall ops buf s d,
  Inv pre post buf s d -> dir_flushed s -> fits (ds_n s - ds_idx s) ops ->
  let '(buf', s', d') := fold_left (run_op ef) ops (buf, s, d) in
  Inv pre post buf' s' d' /\ dir_flushed s'.
Proof.
  induction ops as [|o ops IH]; intros buf s d HI Hf Hfit; cbn [fold_left].
  - split; assumption.
  - destruct o as [bs|e]; cbn [run_op].
    + apply IH; [now apply grow_inv|exact Hf|exact Hfit].
    + pose proof (write_to_file_inv ef pre post buf s d e HI) as H.
      pose proof (wtf_fields ef buf s d e) as Hfl.
      destruct (write_to_file ef buf s d e) as ((buf1, s1), d1) eqn:Ewtf.
      destruct Hfl as (Hsec & Hn & Hst & Hidx).
      assert (Hpre : forall x, e = Some x -> length x = 12 /\ ds_sec s + 12 * ds_idx s + 12 <= ds_last s).
      { intros x ->. cbn [fits] in Hfit. destruct Hfit as (Hl & Hk & _). split; [exact Hl|].
        unfold dir_flushed in Hf. nia. }
      destruct (H Hpre) as (HI1 & Hl1 & _).
      apply IH; [exact HI1| |].
      * unfold dir_flushed in *. rewrite Hsec, Hn, Hl1. destruct HI as [Hlast _ _ _].
        assert (Hlen : length buf1 = length buf).
        { pose proof (wtf_len ef buf s d e) as Hw. rewrite Ewtf in Hw. apply Hw.
          intros x Hx. destruct (Hpre x Hx) as (Hxl & Hin). lia. }
        lia.
      * rewrite Hn, Hidx. destruct e as [x|]; cbn [fits] in Hfit.
        -- destruct Hfit as (_ & _ & Ht). replace (ds_n s - S (ds_idx s)) with (ds_n s - ds_idx s - 1) by lia. exact Ht.
        -- exact Hfit.
Qed.

(* after a flush the destination holds exactly the image at the starting position; bytes before
   it and beyond it are the destination's original ones *)
Theorem flush_exact ef pre post buf s d e :
  Inv pre post buf s d -> dir_flushed s ->
  (forall x, e = Some x -> length x = 12 /\ ds_idx s < ds_n s) ->
  let '(buf', s', d') := write_to_file ef buf s d e in
  d_bytes d' = pre ++ buf' ++ skipn (length buf') post.
Proof.
  intros HI Hf He.
  pose proof (write_to_file_inv ef pre post buf s d e HI) as H.
  destruct (write_to_file ef buf s d e) as ((buf1, s1), d1).
  apply H. intros x Hx. destruct (He x Hx) as (Hl & Hi). split; [exact Hl|]. unfold dir_flushed in Hf. nia.
Qed.

(* the protocol from the very beginning: reserve the directory, flush, then any sequence *)
Theorem protocol_inv ef pre post buf0 n ops :
  fits n ops ->
  let d0 := {| d_bytes := pre ++ post; d_pos := length pre |} in
  let '(b1, s1) := ds_new buf0 n d0 in
  let '(buf', s', d') := fold_left (run_op ef) (Flush None :: ops) (b1, s1, d0) in
  Inv pre post buf' s' d' /\ dir_flushed s'.
Proof.
  intros Hfit d0. unfold ds_new. cbn [fold_left run_op write_to_file flush].
  set (b1 := buf0 ++ repeat 0%N (12 * n)).
  set (s0 := {| ds_idx := 0; ds_sec := length buf0; ds_n := n; ds_start := d_pos d0; ds_last := 0 |}).
  assert (HI0 : Inv pre post b1 s0 d0).
  { constructor; cbn; try lia; reflexivity. }
  pose proof (flush_inv pre post b1 s0 d0 HI0) as HI1.
  apply (run_ops_inv ef pre post ops); [exact HI1| |].
  - unfold dir_flushed, set_last; cbn. unfold b1. rewrite app_length, repeat_length. lia.
  - cbn. now rewrite Nat.sub_0_r.
Qed.
