(* GENERATED from ElfSoname.v by tools/mk_be.py (big-endian copy) - do not edit; edit ElfSoname.v and re-run the script. *)
(* C14: the SONAME reader of src/linux/module_reader.rs (both paths: program headers, then section headers).
   Definitions only; the totality proof is in ElfSonameProofs.v. *)
From Coq Require Import List NArith ZArith Arith Lia Bool.
From MDW Require Import Bytes ElfBE.
Import ListNotations.
Open Scope N_scope.

(* the dynamic array as DynIter yields it: entries up to (excluding) DT_NULL; the flag says that iteration ended with a
   read error (fewer bytes left than one entry) instead of DT_NULL *)
Fixpoint dyn_iter (fuel : nat) (c64 : bool) (b : bytes) (off : nat) : list (N * N) * bool :=
  match fuel with
  | O => ([], true)
  | S f =>
      let w := if c64 then 8%nat else 4%nat in
      match get b off w, get b (off + w) w with
      | Some tag, Some val =>
          if tag =? 0 then ([], false)
          else let '(r, e) := dyn_iter f c64 b (off + 2 * w) in ((tag, val) :: r, e)
      | _, _ => ([], true)
      end
  end.
Definition dyn_entries (c64 : bool) (b : bytes) : list (N * N) * bool := dyn_iter (S (length b)) c64 b 0.

Definition sat_add (a b : N) : N := N.min (a + b) (W64 - 1).
Fixpoint until_nul (b : bytes) : option bytes :=
  match b with
  | [] => None
  | x :: t => if x =? 0 then Some [] else option_map (cons x) (until_nul t)
  end.
(* read_name_from_strtab (callers guarantee name_offset < size) *)
Definition read_name (m : memory) (strtab_off size noff : N) : res bytes :=
  d <- rd m (sat_add strtab_off noff) (size - noff) ;; of_opt (until_nul d).

Definition absolute (m : memory) (addr : N) : N :=
  match m_start m with Some s => if s <=? addr then addr - s else addr | None => addr end.
Definition is_process (m : memory) : bool := match m_start m with Some _ => true | None => false end.

Definition last_val (tag : N) (es : list (N * N)) : option N :=
  fold_left (fun acc '(t, v) => if t =? tag then Some v else acc) es None.

Definition soname_ph (m : memory) (h : ehdr) : res bytes :=
  phs <- read_program_headers m h ;;
  match find (fun p => p_type p =? 2) phs with
  | None => Err
  | Some d =>
      seg <- (if is_process m then rd m (p_vaddr d) (p_memsz d) else rd m (p_offset d) (p_filesz d)) ;;
      let '(es, bad) := dyn_entries (e_class64 h) seg in
      if bad then Err else
      match last_val 5 es, last_val 10 es, last_val 14 es with
      | Some addr, Some size, Some off => if off <? size then read_name m (absolute m addr) size off else Err
      | _, _, _ => Err
      end
  end.

Definition section_offset (m : memory) (s : shdr) : N := if is_process m then sh_addr s else sh_offset s.
Definition DYNSTR : bytes := [46;100;121;110;115;116;114;0].   (* ".dynstr\0" *)

(* the section path returns at the first DT_SONAME whose offset is inside the string table; a read error met before
   that aborts *)
Fixpoint first_soname (m : memory) (strtab : shdr) (es : list (N * N)) (bad : bool) : res bytes :=
  match es with
  | [] => Err
  | (t, v) :: r =>
      if (t =? 14) && (v <? sh_size strtab) then read_name m (section_offset m strtab) (sh_size strtab) v
      else first_soname m strtab r bad
  end.

Definition soname_sh (m : memory) (h : ehdr) : res bytes :=
  hs <- read_section_headers m h ;;
  match find (fun s => sh_type s =? 6) hs with
  | None => Err
  | Some dynh =>
      (* the index is a target-controlled 32-bit value: compare before converting *)
      strtab <- (match (if sh_link dynh <? N.of_nat (length hs) then nth_error hs (N.to_nat (sh_link dynh)) else None) with
                 | Some s => if sh_type s =? 3 then Ok s
                             else (r <- section_header_with_name true m hs (e_shstrndx h) DYNSTR ;; of_opt r)
                 | None => (r <- section_header_with_name true m hs (e_shstrndx h) DYNSTR ;; of_opt r)
                 end) ;;
      sec <- rd m (section_offset m dynh) (sh_size dynh) ;;
      let '(es, bad) := dyn_entries (e_class64 h) sec in
      first_soname m strtab es bad
  end.

Definition soname (m : memory) : res bytes :=
  hb <- rd m 0 64 ;;
  h <- parse_header hb ;;
  or_else (soname_ph m h) (fun _ => soname_sh m h).
