(* Laws of the whole-image combinators: every program built from them SUCCEEDS (no Err, no Panic) from any state that
   satisfies the builder invariant, keeps the invariant (objects tile the image, every stored location designates an
   object of its kind and exact length), only grows the image and only adds objects. *)
From Coq Require Import List NArith ZArith Arith Lia Bool ZifyNat ZifyN ZifyBool.
From MDW Require Import Bytes MemWriter Writer Hoare MiniDump MiniDumpProofs WComb.
Import ListNotations.
Local Open Scope nat_scope.

Definition grows (s s' : wst) : Prop := blen s <= blen s' /\ exists more, w_objs s' = more ++ w_objs s.

Lemma grows_refl s : grows s s. Proof. split; [lia|now exists []]. Qed.
Lemma grows_trans a b c : grows a b -> grows b c -> grows a c.
Proof. intros (H1 & m1 & E1) (H2 & m2 & E2). split; [lia|]. exists (m2 ++ m1). now rewrite E2, E1, app_assoc. Qed.
Lemma grows_in a b o : grows a b -> In o (w_objs a) -> In o (w_objs b).
Proof. intros (_ & m & E) H. rewrite E. apply in_or_app. now right. Qed.

(* [good K m]: from every invariant state whose image has at least K bytes, m succeeds with post-condition Q *)
Definition goodq {A} (K : nat) (m : W A) (Q : wst -> A -> wst -> Prop) : Prop :=
  forall s, Inv s -> K <= blen s -> exists a s', m s = Ok (a, s') /\ Inv s' /\ grows s s' /\ Q s a s'.
Definition good {A} (K : nat) (m : W A) : Prop := goodq K m (fun _ _ _ => True).

Lemma goodq_weaken {A} K K' (m : W A) (Q Q' : wst -> A -> wst -> Prop) :
  K <= K' -> (forall s a s', Inv s -> Inv s' -> grows s s' -> Q s a s' -> Q' s a s') -> goodq K m Q -> goodq K' m Q'.
Proof.
  intros HK HQ H s HI Hb. destruct (H s HI ltac:(lia)) as (a & s' & E & HI' & Hg & Hq).
  exists a, s'. split; [exact E|]. split; [exact HI'|]. split; [exact Hg|]. now apply HQ.
Qed.
Lemma good_of_goodq {A} K (m : W A) Q : goodq K m Q -> good K m.
Proof. apply goodq_weaken; auto. Qed.
Lemma good_weaken {A} K K' (m : W A) : K <= K' -> good K m -> good K' m.
Proof. intro H. apply goodq_weaken; auto. Qed.

Lemma goodq_ret {A} K (a : A) (Q : wst -> A -> wst -> Prop) : (forall s, Inv s -> Q s a s) -> goodq K (ret a) Q.
Proof. intros HQ s HI _. exists a, s. split; [reflexivity|]. split; [exact HI|]. split; [apply grows_refl|now apply HQ]. Qed.
Lemma good_ret {A} K (a : A) : good K (ret a).
Proof. apply goodq_ret. auto. Qed.

Lemma good_bind {A B} K (m : W A) (f : A -> W B) : good K m -> (forall a, good K (f a)) -> good K (bind m f).
Proof.
  intros Hm Hf s HI Hb. destruct (Hm s HI Hb) as (a & s1 & E1 & HI1 & Hg1 & _).
  assert (Hb1 : K <= blen s1) by (destruct Hg1; lia).
  destruct (Hf a s1 HI1 Hb1) as (b & s2 & E2 & HI2 & Hg2 & _).
  exists b, s2. unfold bind. rewrite E1. split; [exact E2|]. split; [exact HI2|].
  split; [eapply grows_trans; eauto|exact I].
Qed.

(* ---- primitives ---- *)
Definition new_obj (k : kind) (v : bytes) (s : wst) (l : loc) (s' : wst) : Prop :=
  l = {| l_rva := u32 (blen s); l_size := N.of_nat (length v) |} /\
  w_objs s' = {| o_kind := k; o_rva := blen s; o_len := length v |} :: w_objs s /\
  blen s' = blen s + length v.

Lemma goodq_alloc K k v : goodq K (w_alloc k v) (new_obj k v).
Proof.
  intros s HI _. eexists _, _. split; [reflexivity|].
  destruct (alloc_ok k v s _ _ HI eq_refl) as (HI' & Hl & _ & _ & _ & _).
  split; [exact HI'|]. split; [split; [lia|]; now exists [{| o_kind := k; o_rva := blen s; o_len := length v |}]|].
  unfold new_obj. split; [reflexivity|]. split; [reflexivity|]. unfold blen in *. cbn [w_buf]. rewrite app_length. reflexivity.
Qed.
Lemma good_alloc K k v : good K (w_alloc k v).
Proof. eapply good_of_goodq, goodq_alloc. Qed.

Lemma goodq_pos K : goodq K w_pos (fun s p s' => p = blen s /\ s' = s).
Proof. intros s HI _. exists (blen s), s. split; [reflexivity|]. split; [exact HI|]. split; [apply grows_refl|auto]. Qed.

(* a blob: allocated and referenced *)
Lemma goodq_blob K k v : goodq K (w_blob k v) (new_obj k v).
Proof.
  intros s HI _. unfold w_blob, bind. cbn [w_alloc w_ref ret].
  eexists _, _. split; [reflexivity|].
  destruct (alloc_ref_ok k v s _ _ tt HI _ eq_refl eq_refl) as (HI2 & Hl2).
  split; [exact HI2|]. split.
  - split; [lia|]. cbn [w_objs]. now exists [{| o_kind := k; o_rva := length (w_buf s); o_len := length v |}].
  - unfold new_obj. split; [reflexivity|]. split; [reflexivity|]. exact Hl2.
Qed.
Lemma good_blob K k v : good K (w_blob k v).
Proof. eapply good_of_goodq, goodq_blob. Qed.

Lemma goodq_patch K off v : off + length v <= K ->
  goodq K (w_patch off v) (fun s _ s' => blen s' = blen s /\ w_objs s' = w_objs s).
Proof.
  intros Hk s HI Hb.
  assert (E : w_patch off v s = Ok (tt, {| w_buf := update (w_buf s) off v; w_objs := w_objs s; w_refs := w_refs s |})).
  { unfold w_patch. rewrite write_at_inside by (unfold blen in Hb; lia). reflexivity. }
  destruct (patch_ok off v s tt _ HI ltac:(lia) E) as (HI' & Hl & Ho).
  eexists tt, _. split; [exact E|]. split; [exact HI'|]. split; [split; [lia|now exists []]|]. auto.
Qed.
Lemma good_patch K off v : off + length v <= K -> good K (w_patch off v).
Proof. intro H. eapply good_of_goodq, goodq_patch, H. Qed.

(* referencing an object that is already there *)
Lemma good_ref_existing K k l :
  forall s, Inv s -> K <= blen s ->
  (exists o, In o (w_objs s) /\ o_kind o = k /\ u32 (o_rva o) = l_rva l /\ N.of_nat (o_len o) = l_size l) ->
  exists s', w_ref k l s = Ok (tt, s') /\ Inv s' /\ grows s s' /\ w_objs s' = w_objs s /\ blen s' = blen s.
Proof.
  intros s HI _ Ho. eexists. split; [reflexivity|].
  destruct (ref_ok k l s tt _ HI Ho eq_refl) as (HI' & Hl & Hobj).
  split; [exact HI'|]. split; [split; [lia|now exists []]|]. auto.
Qed.

(* ---- arrays ---- *)
Section ArrayLaws.
  Context {X R St : Type}.
  Variable size : nat.
  Variable enc : R -> bytes.
  Variable body : X -> St -> W (R * St).
  Hypothesis enc_size : forall r, length (enc r) = size.
  Hypothesis body_good : forall x st, good 0 (body x st).

  Lemma good_fill_from K base : forall xs idx st,
    base + size * (idx + length xs) <= K -> good K (fill_from size enc body base idx xs st).
  Proof.
    induction xs as [|x r IH]; intros idx st Hb; cbn [fill_from]; [apply good_ret|].
    cbn [length] in Hb. apply good_bind; [eapply good_weaken; [|apply body_good]; lia|].
    intro p. apply good_bind; [apply good_patch; rewrite enc_size; nia|].
    intros _. apply IH. nia.
  Qed.

  Lemma u32_le' n : N.to_nat (u32 n) <= n. Proof. apply u32_le. Qed.

  (* the array object is the first thing [w_array] allocates: at the current end of the image *)
  Definition array_post (k : kind) (n : nat) (s : wst) (r : loc * St) (s' : wst) : Prop :=
    fst r = {| l_rva := u32 (blen s); l_size := N.of_nat (size * n) |} /\
    In {| o_kind := k; o_rva := blen s; o_len := size * n |} (w_objs s').

  Lemma goodq_array K exact k xs st : goodq K (w_array size enc body exact k xs st) (array_post k (length xs)).
  Proof.
    intros s HI Hb. unfold w_array. unfold bind at 1. cbn [w_pos].
    destruct (goodq_alloc K k (repeat 0%N (size * length xs)) s HI Hb) as (a & s1 & E1 & HI1 & Hg1 & (Ha & Ho1 & Hl1)).
    unfold bind at 1. rewrite E1. rewrite repeat_length in *.
    set (base := if exact then length (w_buf s) else N.to_nat (l_rva a)).
    assert (Hbase : base + size * (0 + length xs) <= blen s1).
    { unfold base. destruct exact; [unfold blen in *; lia|]. subst a. cbn [l_rva]. pose proof (u32_le (blen s)). lia. }
    destruct (good_fill_from (blen s1) base xs 0 st Hbase s1 HI1 (le_n _)) as (st' & s2 & E2 & HI2 & Hg2 & _).
    unfold bind. fold base. rewrite E2. eexists (a, st'), s2. split; [reflexivity|].
    split; [exact HI2|]. split; [eapply grows_trans; eauto|].
    split; [exact Ha|]. eapply grows_in; [exact Hg2|]. rewrite Ho1. now left.
  Qed.

  (* header + array: the entry handed to the directory spans two adjacent objects *)
  Definition span_post (ty : N) (hdr : bytes) (n : nat) (s : wst) (r : (N * loc) * St) (s' : wst) : Prop :=
    fst r = (ty, {| l_rva := u32 (blen s); l_size := (N.of_nat (length hdr) + N.of_nat (size * n))%N |}) /\
    In {| o_kind := KStreamHdr ty; o_rva := blen s; o_len := length hdr |} (w_objs s') /\
    In {| o_kind := KArray ty; o_rva := blen s + length hdr; o_len := size * n |} (w_objs s').

  Lemma goodq_span_array K exact ty hdr xs st :
    goodq K (w_span_array size enc body exact ty hdr xs st) (span_post ty hdr (length xs)).
  Proof.
    intros s HI Hb. unfold w_span_array.
    destruct (goodq_alloc K (KStreamHdr ty) hdr s HI Hb) as (h & s1 & E1 & HI1 & Hg1 & (Hh & Ho1 & Hl1)).
    unfold bind at 1. rewrite E1.
    destruct (goodq_array 0 exact (KArray ty) xs st s1 HI1 ltac:(lia)) as (r & s2 & E2 & HI2 & Hg2 & (Hr & Hin2)).
    unfold bind. rewrite E2. eexists _, s2. split; [reflexivity|]. split; [exact HI2|].
    split; [eapply grows_trans; eauto|].
    unfold span_post. cbn [fst]. rewrite Hr, Hh. cbn [l_rva l_size]. split; [reflexivity|]. split.
    - eapply grows_in; [exact Hg2|]. rewrite Ho1. now left.
    - rewrite Hl1 in Hin2. exact Hin2.
  Qed.

  Lemma good_collect K : forall xs st, good K (w_collect body xs st).
  Proof.
    induction xs as [|x r IH]; intro st; cbn [w_collect]; [apply good_ret|].
    apply good_bind; [eapply good_weaken; [|apply body_good]; lia|]. intro p.
    apply good_bind; [apply IH|]. intro q. apply good_ret.
  Qed.
End ArrayLaws.

(* ---- reserved slot, body, fill ---- *)
Lemma goodq_slot {R} K size (enc : R -> bytes) k (body : W R) :
  (forall r, length (enc r) = size) -> good 0 body ->
  goodq K (w_slot size enc k body) (fun s l s' =>
     l = {| l_rva := u32 (blen s); l_size := N.of_nat size |} /\ In {| o_kind := k; o_rva := blen s; o_len := size |} (w_objs s')).
Proof.
  intros Henc Hbody s HI Hb. unfold w_slot.
  destruct (goodq_alloc K k (repeat 0%N size) s HI Hb) as (a & s1 & E1 & HI1 & Hg1 & (Ha & Ho1 & Hl1)).
  rewrite repeat_length in *. unfold bind at 1. rewrite E1.
  destruct (Hbody s1 HI1 ltac:(lia)) as (r & s2 & E2 & HI2 & Hg2 & _).
  unfold bind at 1. rewrite E2.
  assert (Hp : N.to_nat (l_rva a) + length (enc r) <= blen s2).
  { subst a. cbn [l_rva]. rewrite Henc. pose proof (u32_le (blen s)). destruct Hg2. lia. }
  destruct (goodq_patch (blen s2) _ _ Hp s2 HI2 (le_n _)) as (u & s3 & E3 & HI3 & Hg3 & (Hl3 & Ho3)).
  unfold bind. rewrite E3. eexists a, s3. split; [reflexivity|]. split; [exact HI3|].
  split; [eapply grows_trans; [exact Hg1|eapply grows_trans; eauto]|].
  split; [exact Ha|]. rewrite Ho3. eapply grows_in; [exact Hg2|]. rewrite Ho1. now left.
Qed.
