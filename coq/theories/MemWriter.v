From Coq Require Import List NArith Arith Lia Bool.
From MDW Require Import Bytes.
Import ListNotations.

Inductive outcome (A : Type) := Ok (a : A) | Err | Panic.
Arguments Ok {A} _. Arguments Err {A}. Arguments Panic {A}.

Definition u32 (n : nat) : N := (N.of_nat n mod 2 ^ 32)%N.

(* Buffer::reserve *)
Definition reserve (b : bytes) (n : nat) : bytes * nat := (b ++ repeat 0%N n, length b).

(* Buffer::write_at : no bounds check against any slot; extends with zeros; traps when offset > len *)
Definition write_at (b : bytes) (off : nat) (v : bytes) : outcome bytes :=
  if (length b <? off)%nat then Panic
  else
    let rem := (length b - off)%nat in
    let b' := if (rem <? length v)%nat then b ++ repeat 0%N (length v - rem) else b in
    Ok (update b' off v).

Record loc := { l_rva : N; l_size : N }.

(* MemoryWriter::alloc_with_val *)
Definition alloc_with_val (b : bytes) (v : bytes) : outcome (bytes * loc) :=
  match write_at b (length b) v with
  | Ok b' => Ok (b', {| l_rva := u32 (length b); l_size := N.of_nat (length v) |})
  | Err => Err | Panic => Panic
  end.

(* MemoryWriter::alloc *)
Definition alloc (b : bytes) (size : nat) : bytes * loc :=
  let '(b', p) := reserve b size in (b', {| l_rva := u32 p; l_size := N.of_nat size |}).

(* MemoryWriter::set_value : position is the stored u32 *)
Definition set_value (b : bytes) (pos : N) (v : bytes) : outcome bytes := write_at b (N.to_nat pos) v.

(* MemoryArrayWriter *)
Definition alloc_array (b : bytes) (size n : nat) : bytes * N := let '(b', p) := reserve b (n * size) in (b', u32 p).
Definition set_value_at (b : bytes) (pos : N) (size idx : nat) (v : bytes) : outcome bytes :=
  write_at b (N.to_nat pos + size * idx) v.

(* ---- laws ---- *)
Lemma write_at_end b v : write_at b (length b) v = Ok (b ++ v).
Proof.
  unfold write_at. rewrite Nat.ltb_irrefl, Nat.sub_diag.
  destruct (0 <? length v)%nat eqn:E.
  - rewrite Nat.sub_0_r. unfold update. f_equal.
    rewrite firstn_app, Nat.sub_diag, firstn_all. cbn [firstn]. rewrite app_nil_r.
    rewrite skipn_all2 by (rewrite app_length, repeat_length; lia). now rewrite app_nil_r.
  - apply Nat.ltb_ge in E. destruct v; [|cbn in E; lia]. unfold update. cbn [length app].
    rewrite Nat.add_0_r, firstn_all, skipn_all. now rewrite app_nil_r.
Qed.

Lemma alloc_with_val_law b v :
  alloc_with_val b v = Ok (b ++ v, {| l_rva := u32 (length b); l_size := N.of_nat (length v) |}).
Proof. unfold alloc_with_val. now rewrite write_at_end. Qed.

Lemma write_at_inside b off v :
  (off + length v <= length b)%nat -> write_at b off v = Ok (update b off v).
Proof.
  intro H. unfold write_at.
  replace (length b <? off)%nat with false by (symmetry; apply Nat.ltb_ge; lia).
  replace (length b - off <? length v)%nat with false by (symmetry; apply Nat.ltb_ge; lia).
  reflexivity.
Qed.

(* filling a reserved slot changes only that slot *)
Theorem set_value_law b pos v b' :
  (N.to_nat pos + length v <= length b)%nat ->
  set_value b pos v = Ok b' ->
  length b' = length b /\
  slice b' (N.to_nat pos) (length v) = v /\
  (forall o n, (o + n <= N.to_nat pos)%nat -> slice b' o n = slice b o n) /\
  (forall o n, (N.to_nat pos + length v <= o)%nat -> slice b' o n = slice b o n).
Proof.
  intros H E. unfold set_value in E. rewrite write_at_inside in E by assumption.
  injection E as <-. repeat split.
  - now apply update_length.
  - now apply slice_update_same.
  - intros o n Ho. apply slice_update_before; lia.
  - intros o n Ho. apply slice_update_after; lia.
Qed.

(* element i of an array lives at base + i * size *)
Theorem set_value_at_law b pos size n idx v b' :
  length v = size -> (idx < n)%nat -> (N.to_nat pos + n * size <= length b)%nat ->
  set_value_at b pos size idx v = Ok b' ->
  length b' = length b /\ slice b' (N.to_nat pos + idx * size) size = v /\
  (forall j, (j < n)%nat -> j <> idx -> slice b' (N.to_nat pos + j * size) size = slice b (N.to_nat pos + j * size) size).
Proof.
  intros Hv Hi Hb E. unfold set_value_at in E.
  assert (Hin : (N.to_nat pos + size * idx + length v <= length b)%nat) by nia.
  rewrite write_at_inside in E by assumption. injection E as <-. repeat split.
  - now apply update_length.
  - subst size. rewrite (Nat.mul_comm idx (length v)). now apply slice_update_same.
  - intros j Hj Hne. destruct (Nat.lt_ge_cases j idx).
    + apply slice_update_before; nia.
    + apply slice_update_after; nia.
Qed.

(* the unchecked case the thread-names writer hits: index >= n writes outside the array *)
Example set_value_at_out_of_array :
  exists b', set_value_at [1;2;3;4]%N 0 2 2 [9;9]%N = Ok b' /\ length b' = 6%nat.
Proof. eexists; split; [vm_compute; reflexivity| reflexivity]. Qed.
