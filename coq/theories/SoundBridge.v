(* C01: the builder invariant implies the object half of the executable soundness predicate.  The ghost object map of a
   state satisfying [Inv], read as the object list of an abstract image of the buffer's length (any assignment of
   kinds), passes [inside] for every object and [pairwise]: so what the check evaluates on real images is what the
   theorem about the model establishes for the model. *)
From Coq Require Import List NArith Arith Lia Bool ZifyNat ZifyN ZifyBool.
From MDW Require Import Bytes MemWriter Writer SoundAbs.
Import ListNotations.
Local Open Scope nat_scope.

Definition to_sobj (kind_of : obj -> N) (o : obj) : sobj :=
  {| so_kind := kind_of o; so_rva := N.of_nat (o_rva o); so_size := N.of_nat (o_len o) |}.

Lemma tiled_inside kind_of objs : forall e, tiled objs e ->
  forallb (inside (N.of_nat e)) (map (to_sobj kind_of) objs) = true.
Proof.
  intros e Ht. apply forallb_forall. intros x Hx. apply in_map_iff in Hx. destruct Hx as (o & <- & Hin).
  pose proof (tiled_bounds objs e o Ht Hin). unfold inside, to_sobj. cbn [so_rva so_size]. apply N.leb_le. lia.
Qed.

Lemma tiled_pairwise kind_of objs : forall e, tiled objs e -> pairwise (map (to_sobj kind_of) objs) = true.
Proof.
  induction objs as [|a t IH]; intros e Ht; cbn [map pairwise]; [reflexivity|].
  cbn [tiled] in Ht. destruct Ht as (He & Ht). rewrite (IH _ Ht), andb_true_r.
  apply forallb_forall. intros x Hx. apply in_map_iff in Hx. destruct Hx as (o & <- & Hin).
  pose proof (tiled_bounds t (o_rva a) o Ht Hin). unfold compatible, disjoint_b, to_sobj. cbn [so_rva so_size].
  apply orb_true_iff. left. apply orb_true_iff. right. apply N.leb_le. lia.
Qed.

Theorem inv_objects_sound kind_of s :
  Inv s ->
  forallb (inside (N.of_nat (length (w_buf s)))) (map (to_sobj kind_of) (w_objs s)) = true /\
  pairwise (map (to_sobj kind_of) (w_objs s)) = true.
Proof. intros [Ht _]. split; [now apply tiled_inside|now apply tiled_pairwise with (e := length (w_buf s))]. Qed.

Print Assumptions inv_objects_sound.
