(* C14, functional half for the SONAME on a family of well-formed files: ELF64 with one PT_DYNAMIC program header whose
   dynamic array names the string table and the DT_SONAME offset.  For every name without a NUL byte the reader returns
   exactly that name. *)
From Coq Require Import List NArith ZArith Arith Lia Bool ZifyNat ZifyN ZifyBool.
From MDW Require Import Bytes Elf ElfNotes ElfImage ElfText ElfSoname.
Import ListNotations.
Local Open Scope nat_scope.

Definition ph_dyn : bytes := (le 4 2 ++ le 4 6 ++ le 8 120 ++ le 8 120 ++ le 8 120 ++ le 8 64 ++ le 8 64 ++ le 8 8)%N.   (* PT_DYNAMIC at 120, 64 bytes *)
Definition dyn_pre : bytes := (le 8 5 ++ le 8 184 ++ le 8 10)%N.                    (* DT_STRTAB = 184, DT_STRSZ = ... *)
Definition dyn_post : bytes := (le 8 14 ++ le 8 1 ++ le 8 0 ++ le 8 0)%N.           (* DT_SONAME = 1, DT_NULL *)
Definition dyn_arr (sz : nat) : bytes := dyn_pre ++ le 8 (N.of_nat sz) ++ dyn_post.
Definition image_so (name : bytes) : bytes :=
  hdr64 ++ ph_dyn ++ dyn_arr (length name + 2) ++ (0%N :: name ++ [0%N]).

Lemma dyn_arr_length sz : length (dyn_arr sz) = 64.
Proof. unfold dyn_arr. rewrite !app_length, !le_length. reflexivity. Qed.

Lemma until_nul_name (name : bytes) : Forall (fun x => x <> 0%N) name -> until_nul (name ++ [0%N]) = Some name.
Proof.
  induction 1 as [|x t Hx Ht IH]; cbn [app until_nul]; [reflexivity|].
  destruct (x =? 0)%N eqn:E; [apply N.eqb_eq in E; contradiction|]. now rewrite IH.
Qed.

Lemma dyn_entries_arr sz : (N.of_nat sz < 2 ^ 63)%N ->
  dyn_entries true (dyn_arr sz) = ([(5, 184); (10, N.of_nat sz); (14, 1)]%N, false).
Proof.
  intro Hs. unfold dyn_entries. rewrite dyn_arr_length. unfold dyn_arr.
  assert (Lp : length dyn_pre = 24) by reflexivity.
  assert (B : (256 ^ N.of_nat 8 = 2 ^ 64)%N) by reflexivity.
  set (tl := le 8 (N.of_nat sz) ++ dyn_post).
  (* entry 0: in the constant prefix *)
  cbn [dyn_iter]. change (2 * 8) with 16.
  rewrite (get_in_prefix dyn_pre tl 0 8), (get_in_prefix dyn_pre tl (0 + 8) 8) by (rewrite Lp; lia).
  change (get dyn_pre 0 8) with (Some 5%N). change (get dyn_pre (0 + 8) 8) with (Some 184%N). cbn [N.eqb].
  (* entry 1: tag in the prefix, value symbolic *)
  rewrite (get_in_prefix dyn_pre tl (0 + 16) 8) by (rewrite Lp; lia).
  change (get dyn_pre (0 + 16) 8) with (Some 10%N). unfold tl.
  rewrite (get_mid dyn_pre dyn_post 8 (N.of_nat sz) (0 + 16 + 8)) by (rewrite ?Lp, ?B; lia). cbn [N.eqb].
  (* entries 2 and 3: in the constant suffix *)
  rewrite (app_assoc dyn_pre). rewrite <- (app_nil_r dyn_post).
  set (hd := dyn_pre ++ le 8 (N.of_nat sz)).
  assert (Lh : length hd = 32) by (unfold hd; rewrite app_length, le_length, Lp; reflexivity).
  rewrite (get_window hd dyn_post [] (0 + 16 + 16) 0 8), (get_window hd dyn_post [] (0 + 16 + 16 + 8) 8 8),
    (get_window hd dyn_post [] (0 + 16 + 16 + 16) 16 8), (get_window hd dyn_post [] (0 + 16 + 16 + 16 + 8) 24 8)
    by (rewrite ?Lh; try reflexivity; cbn; lia).
  reflexivity.
Qed.

Theorem soname_of_image name :
  Forall (fun x => x <> 0%N) name -> (N.of_nat (length (image_so name)) < 2 ^ 63)%N ->
  soname (mem_of (image_so name)) = Ok name.
Proof.
  intros Hnz Hsz.
  set (strs := (0%N :: name ++ [0%N])) in *.
  assert (Ls : length strs = length name + 2) by (unfold strs; cbn [length]; rewrite app_length; cbn; lia).
  assert (Hn : (N.of_nat (length name + 2) < 2 ^ 63)%N).
  { unfold image_so in Hsz. fold strs in Hsz. rewrite !app_length in Hsz. lia. }
  unfold soname.
  assert (R0 : rd (mem_of (image_so name)) 0 64 = Ok hdr64).
  { pose proof (rd_mid [] hdr64 (ph_dyn ++ dyn_arr (length name + 2) ++ strs)) as H. cbn [app length] in H.
    apply H; [discriminate|exact Hsz]. }
  rewrite R0. cbn [bind]. rewrite hdr64_parses. cbn [bind].
  (* program headers: one PT_DYNAMIC *)
  assert (R1 : read_program_headers (mem_of (image_so name)) the_header =
               Ok [{| p_type := 2; p_offset := 120; p_vaddr := 120; p_filesz := 64; p_memsz := 64; p_align := 8 |}]).
  { unfold read_program_headers, the_header. cbn [e_phoff e_phentsize e_phnum e_class64]. cbn [N.eqb Pos.eqb].
    replace (rd (mem_of (image_so name)) 64 (56 * 1)) with
      (rd (mem_of (hdr64 ++ ph_dyn ++ (dyn_arr (length name + 2) ++ strs))) (N.of_nat (length hdr64)) (N.of_nat (length ph_dyn)))
      by reflexivity.
    rewrite rd_mid; [reflexivity|discriminate|exact Hsz]. }
  unfold soname_ph. rewrite R1. cbn [bind find p_type N.eqb Pos.eqb].
  change (is_process (mem_of (image_so name))) with false. cbn iota. cbn [p_offset p_filesz].
  (* the dynamic array *)
  assert (R2 : rd (mem_of (image_so name)) 120 64 = Ok (dyn_arr (length name + 2))).
  { replace (rd (mem_of (image_so name)) 120 64) with
      (rd (mem_of ((hdr64 ++ ph_dyn) ++ dyn_arr (length name + 2) ++ strs)) (N.of_nat (length (hdr64 ++ ph_dyn))) (N.of_nat (length (dyn_arr (length name + 2)))))
      by (rewrite dyn_arr_length; unfold image_so; fold strs; rewrite <- app_assoc; reflexivity).
    rewrite rd_mid; [reflexivity| |].
    - intro E. apply (f_equal (@length N)) in E. rewrite dyn_arr_length in E. discriminate.
    - rewrite <- app_assoc. exact Hsz. }
  rewrite R2. cbn [bind the_header e_class64]. rewrite dyn_entries_arr by exact Hn.
  cbn [last_val fold_left N.eqb Pos.eqb].
  destruct (1 <? N.of_nat (length name + 2))%N eqn:C; [|apply N.ltb_ge in C; lia].
  (* the string *)
  unfold read_name. change (absolute (mem_of (image_so name)) 184) with 184%N.
  assert (Sa : sat_add 184 1 = 185%N) by reflexivity. rewrite Sa.
  assert (R3 : rd (mem_of (image_so name)) 185 (N.of_nat (length name + 2) - 1) = Ok (name ++ [0%N])).
  { replace (N.of_nat (length name + 2) - 1)%N with (N.of_nat (length (name ++ [0%N]))) by (rewrite app_length; cbn [length]; lia).
    replace (image_so name) with ((hdr64 ++ ph_dyn ++ dyn_arr (length name + 2) ++ [0%N]) ++ (name ++ [0%N]) ++ [])
      by (unfold image_so, strs; rewrite app_nil_r, <- !app_assoc; reflexivity).
    replace 185%N with (N.of_nat (length (hdr64 ++ ph_dyn ++ dyn_arr (length name + 2) ++ [0%N])))
      by (rewrite !app_length, dyn_arr_length; reflexivity).
    apply rd_mid; [destruct name; discriminate|].
    rewrite app_nil_r, <- !app_assoc. cbn [app]. unfold image_so, strs in Hsz. exact Hsz. }
  rewrite R3. cbn [bind]. rewrite until_nul_name by exact Hnz. reflexivity.
Qed.

Example soname_image_example : soname (mem_of (image_so [108; 105; 98; 120]%N)) = Ok [108; 105; 98; 120]%N.
Proof. vm_compute. reflexivity. Qed.

Print Assumptions soname_of_image.
