From Coq Require Import List NArith Arith Lia Bool.
From MDW Require Import Bytes.
Import ListNotations.
Open Scope N_scope.

Record mapping := { mp_start : N; mp_size : N; mp_sys_start : N; mp_sys_end : N; mp_exec : bool }.

Definition contains (m : mapping) (a : N) : bool := (mp_sys_start m <=? a) && (a <? mp_sys_end m).
Definition find_no_bias (ms : list mapping) (a : N) : option mapping := find (fun m => contains m a) ms.

Definition W : N := 2 ^ 64.
Definition DEFACED : N := 0x0defaced0defaced.
Definition SMALL : N := 4096.

(* signed magnitude test on a 64-bit word (post-fix code: -4096 <= (w as isize) <= 4096) *)
Definition small_fixed (w : N) : bool := (w <=? SMALL) || (W - SMALL <=? w).
(* unchanged code: (w <= 4096 as usize) && (w as isize >= -4096) *)
Definition small_orig (w : N) : bool := (w <=? SMALL) && ((w <? W / 2) || (W - SMALL <=? w)).

(* ---- the 2^11-bit pre-filter ---- *)
Definition SHIFT : N := 21.
Definition NBITS : N := 2048.
Definition bit_of (a : N) : N := (a / 2 ^ SHIFT) mod NBITS.

(* the loop `for bit in start..=end { set (bit mod 2048) }`, as recursion on the iteration count *)
Fixpoint range_sets (lo : N) (count : nat) (b : N) : bool :=
  match count with
  | O => false
  | S c => (lo mod NBITS =? b) || range_sets (lo + 1) c b
  end.
Definition bitmap_loop (ms : list mapping) (b : N) : bool :=
  existsb (fun m => mp_exec m &&
             let lo := mp_start m / 2 ^ SHIFT in
             let hi := (mp_start m + mp_size m) / 2 ^ SHIFT in
             range_sets lo (N.to_nat (hi + 1 - lo)) b) ms.

(* closed form used for execution *)
Definition range_hits (lo hi b : N) : bool :=
  (lo <=? hi) && ((NBITS - 1 <=? hi - lo) || ((b + NBITS - lo mod NBITS) mod NBITS <=? hi - lo)).
Definition bitmap_fast (ms : list mapping) (b : N) : bool :=
  existsb (fun m => mp_exec m &&
             range_hits (mp_start m / 2 ^ SHIFT) ((mp_start m + mp_size m) / 2 ^ SHIFT) b) ms.

(* ---- word loop with the last-hit cache ---- *)
Definition classify_step (small : N -> bool) (bitmap : N -> bool) (ms : list mapping)
           (stack_map : option mapping) (last : option mapping) (w : N) : option mapping * N :=
  if small w then (last, w)
  else if match stack_map with Some s => contains s w | None => false end then (last, w)
  else if match last with Some h => contains h w | None => false end then (last, w)
  else if bitmap (bit_of w) then
         match find_no_bias ms w with
         | Some h => if mp_exec h then (Some h, w) else (last, DEFACED)
         | None => (last, DEFACED)
         end
  else (last, DEFACED).

Fixpoint run_words small bitmap ms stack_map (last : option mapping) (ws : list N) : list N :=
  match ws with
  | [] => []
  | w :: t => let '(last', w') := classify_step small bitmap ms stack_map last w in
              w' :: run_words small bitmap ms stack_map last' t
  end.

(* specification: no filter, no cache *)
Definition keep_spec (ms : list mapping) (stack_map : option mapping) (w : N) : bool :=
  small_fixed w
  || match stack_map with Some s => contains s w | None => false end
  || existsb (fun m => mp_exec m && contains m w) ms.
Definition classify_spec ms stack_map (w : N) : N := if keep_spec ms stack_map w then w else DEFACED.

(* ---- bytes <-> words ---- *)
Fixpoint words (fuel : nat) (b : bytes) : list N * bytes :=
  match fuel with
  | O => ([], b)
  | S f => match b with
           | b0 :: b1 :: b2 :: b3 :: b4 :: b5 :: b6 :: b7 :: t =>
               let '(ws, tl) := words f t in (unle [b0;b1;b2;b3;b4;b5;b6;b7] :: ws, tl)
           | _ => ([], b)
           end
  end.

Definition roundup8 (n : nat) : nat := ((n + 7) / 8 * 8)%nat.

Inductive outcome (A : Type) := Ok (a : A) | Panic.
Arguments Ok {A} _. Arguments Panic {A}.

Definition sanitize_gen (clamp : bool) (small : N -> bool) (bitmap : list mapping -> N -> bool)
           (ms : list mapping) (stack : bytes) (sp : N) (sp_off : nat) : outcome bytes :=
  let off0 := roundup8 sp_off in
  if (length stack <? off0)%nat && negb clamp then Panic
  else
    let off := Nat.min off0 (length stack) in
    let body := skipn off stack in
    let '(ws, tl) := words (length body) body in
    let stack_map := find_no_bias ms sp in
    Ok (repeat 0 off ++ flat_map (le 8) (run_words small (bitmap ms) ms stack_map None ws)
        ++ repeat 0 (length tl)).

Definition sanitize_fixed := sanitize_gen true small_fixed bitmap_loop.
Definition sanitize_orig := sanitize_gen false small_orig bitmap_loop.
Definition sanitize_exec := sanitize_gen true small_fixed bitmap_fast.   (* what is extracted *)

Definition sanitize_spec (ms : list mapping) (stack : bytes) (sp : N) (sp_off : nat) : bytes :=
  let off := Nat.min (roundup8 sp_off) (length stack) in
  let body := skipn off stack in
  let '(ws, tl) := words (length body) body in
  repeat 0 off ++ flat_map (le 8) (map (classify_spec ms (find_no_bias ms sp)) ws) ++ repeat 0 (length tl).
