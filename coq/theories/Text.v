From Coq Require Import List NArith ZArith Arith Lia Bool.
From MDW Require Import Bytes.
Import ListNotations.
Open Scope N_scope.
Ltac Zify.zify_post_hook ::= Z.to_euclidean_division_equations.

(* A Rust &str is a list of Unicode scalar values *)
Definition scalar (c : N) : Prop := c < 0xD800 \/ (0xE000 <= c /\ c < 0x110000).

Definition utf16_char (c : N) : list N :=
  if c <? 0x10000 then [c]
  else let c' := c - 0x10000 in [0xD800 + c' / 0x400; 0xDC00 + c' mod 0x400].
Definition utf16 (s : list N) : list N := flat_map utf16_char s.

(* decoder (structural, with one unit of lookahead) *)
Fixpoint utf16_decode (u : list N) : option (list N) :=
  match u with
  | [] => Some []
  | h :: t =>
      if (h <? 0xD800) || (0xE000 <=? h) then option_map (cons h) (utf16_decode t)
      else if h <? 0xDC00 then
        match t with
        | l :: t' => if (0xDC00 <=? l) && (l <? 0xE000)
                     then option_map (cons (0x10000 + (h - 0xD800) * 0x400 + (l - 0xDC00))) (utf16_decode t')
                     else None
        | [] => None
        end
      else None
  end.

Lemma utf16_roundtrip s : Forall scalar s -> utf16_decode (utf16 s) = Some s.
Proof.
  induction 1 as [|c s Hc Hs IH]; [reflexivity|].
  unfold utf16; cbn [flat_map]. fold (utf16 s). unfold utf16_char.
  destruct (c <? 0x10000) eqn:E.
  - apply N.ltb_lt in E. cbn [app utf16_decode].
    replace ((c <? 0xD800) || (0xE000 <=? c)) with true.
    + now rewrite IH.
    + symmetry. apply orb_true_iff. destruct Hc as [H|[H _]]; [left; now apply N.ltb_lt|right; now apply N.leb_le].
  - apply N.ltb_ge in E. destruct Hc as [H|[H1 H2]]; [lia|].
    set (c' := c - 0x10000). assert (Hc' : c' < 0x100000) by (unfold c'; lia).
    assert (Hdef : c = 0x10000 + c') by (unfold c'; lia). clearbody c'.
    assert (Hq : c' / 0x400 < 0x400) by (apply N.div_lt_upper_bound; lia).
    assert (Hr : c' mod 0x400 < 0x400) by (apply N.mod_lt; lia).
    cbn [app utf16_decode].
    replace ((0xD800 + c' / 0x400 <? 0xD800) || (0xE000 <=? 0xD800 + c' / 0x400)) with false.
    2:{ symmetry. apply orb_false_iff. split; [apply N.ltb_ge|apply N.leb_gt]; lia. }
    replace (0xD800 + c' / 0x400 <? 0xDC00) with true by (symmetry; apply N.ltb_lt; lia).
    replace ((0xDC00 <=? 0xDC00 + c' mod 0x400) && (0xDC00 + c' mod 0x400 <? 0xE000)) with true.
    2:{ symmetry. apply andb_true_iff. split; [apply N.leb_le|apply N.ltb_lt]; lia. }
    rewrite IH. cbn [option_map]. f_equal. f_equal.
    replace (0xD800 + c' / 0x400 - 0xD800) with (c' / 0x400) by lia.
    replace (0xDC00 + c' mod 0x400 - 0xDC00) with (c' mod 0x400) by lia.
    pose proof (N.div_mod c' 0x400). lia.
Qed.

(* MINIDUMP_STRING: byte length, then UTF-16LE code units *)
Definition md_string (s : list N) : bytes :=
  le 4 (2 * N.of_nat (length (utf16 s))) ++ flat_map (le 2) (utf16 s).
Lemma md_string_length s : length (md_string s) = (4 + 2 * length (utf16 s))%nat.
Proof.
  unfold md_string. rewrite app_length, le_length. f_equal.
  induction (utf16 s) as [|u t IH]; [reflexivity|]. cbn [flat_map]. rewrite app_length, le_length, IH. cbn [length]. lia.
Qed.
Print Assumptions utf16_roundtrip.
