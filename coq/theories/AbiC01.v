(* ABI entry for C01 *)
From Coq Require Import List NArith Arith Bool.
From MDW Require Import SoundAbs AbiBase.
Import ListNotations.
Local Open Scope N_scope.

Fixpoint dec_dirents (n : nat) (l : list N) : list dirent * list N :=
  match n, l with
  | S k, t :: s :: r :: im :: rest => let '(ds, r') := dec_dirents k rest in ({| de_type := t; de_size := s; de_rva := r; de_implied := im |} :: ds, r')
  | _, _ => ([], l)
  end.
Fixpoint dec_sobjs (n : nat) (l : list N) : list sobj :=
  match n, l with
  | S k, kd :: r :: s :: rest => {| so_kind := kd; so_rva := r; so_size := s |} :: dec_sobjs k rest
  | _, _ => []
  end.
(* [len; signature; version; count; dir_rva; ndir; (type; size; rva; implied)...; nobjs; (kind; rva; size)...] -> [1] | [0] *)
Definition entry_c01_sound (args : list N) : list N :=
  match args with
  | len :: sg :: ver :: c :: dr :: nd :: rest =>
      let '(ds, rest') := dec_dirents (cnt nd rest) rest in
      match rest' with
      | no :: rest'' =>
          [b2n (sound_b {| ai_len := len; ai_signature := sg; ai_version := ver; ai_count := c; ai_dir_rva := dr; ai_dir := ds;
                           ai_objs := dec_sobjs (cnt no rest'') rest'' |})]
      | [] => [2]
      end
  | _ => [2]
  end.
