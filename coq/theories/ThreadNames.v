From Coq Require Import List NArith Arith Lia Bool.
From MDW Require Import Bytes MemWriter FillArray Text.
Import ListNotations.
Open Scope nat_scope.

Definition thread := (N * option (list N))%type.   (* tid, name (scalar values) or unreadable *)

Definition named (ths : list thread) : list (N * list N) :=
  flat_map (fun t => match snd t with Some nm => [(fst t, nm)] | None => [] end) ths.

Definition name_entry (tid : N) (pos : nat) : bytes := le 4 tid ++ le 8 (u32 pos).

(* the loop of thread_names_stream::write.  fixed = false is the unchanged code: the slot is the
   position among ALL threads; fixed = true uses a separate counter of named threads. *)
Fixpoint names_loop (fixed : bool) (base : nat) (ths : list thread) (buf : bytes) (idx cnt : nat) : outcome bytes :=
  match ths with
  | [] => Ok buf
  | (_, None) :: t => names_loop fixed base t buf (S idx) cnt
  | (tid, Some nm) :: t =>
      match write_at (buf ++ md_string nm) (base + 12 * (if fixed then cnt else idx)) (name_entry tid (length buf)) with
      | Ok buf' => names_loop fixed base t buf' (S idx) (S cnt)
      | Err => Err | Panic => Panic
      end
  end.

Definition names_write (fixed : bool) (ths : list thread) (buf : bytes) : outcome (bytes * (N * N)) :=
  let n := length (named ths) in
  let buf1 := buf ++ le 4 (N.of_nat n) ++ repeat 0%N (12 * n) in
  match names_loop fixed (length buf + 4) ths buf1 0 0 with
  | Ok b => Ok (b, (u32 (length buf), N.of_nat (4 + 12 * n)))
  | Err => Err | Panic => Panic
  end.

(* ---------------- proofs ---------------- *)
Definition emit_name (x : N * list N) (pos : nat) : bytes * bytes := (md_string (snd x), name_entry (fst x) pos).

Lemma emit_name_size x p : length (snd (emit_name x p)) = 12.
Proof. unfold emit_name, name_entry; cbn [snd]. now rewrite app_length, !le_length. Qed.

Lemma names_loop_fixed base ths : forall buf idx cnt,
  names_loop true base ths buf idx cnt = fill_loop _ 12 emit_name base (named ths) buf cnt.
Proof.
  induction ths as [|[tid [nm|]] t IH]; intros buf idx cnt; cbn [names_loop named flat_map fst snd app fill_loop].
  - reflexivity.
  - unfold emit_name at 1; cbn [fst snd]. fold (named t).
    destruct (write_at _ _ _); auto.
  - apply IH.
Qed.

(* filling a zeroed array of exactly n slots with n entries yields their concatenation *)
Lemma fill_slots_concat esz (entries : list bytes) : forall pre : bytes,
  Forall (fun e => length e = esz) entries ->
  forall post : bytes, fill_slots esz (pre ++ repeat 0%N (esz * length entries) ++ post) (length pre) 0 entries
               = pre ++ concat entries ++ post.
Proof.
  (* generalise over the number of slots already filled *)
  assert (G : forall (entries : list bytes) (filled pre post : bytes),
    Forall (fun e => length e = esz) entries ->
    forall k, length filled = esz * k ->
    fill_slots esz (pre ++ filled ++ repeat 0%N (esz * length entries) ++ post) (length pre) k entries
    = pre ++ filled ++ concat entries ++ post).
  { induction entries0 as [|e t IH]; intros filled pre post Hf k Hk; cbn [fill_slots concat length].
    - rewrite Nat.mul_0_r. reflexivity.
    - inversion Hf as [|? ? He Ht]; subst.
      replace (length e * S (length t)) with (length e + length e * length t) by lia.
      rewrite repeat_app, <- !app_assoc.
      assert (E : update (pre ++ filled ++ repeat 0%N (length e) ++ repeat 0%N (length e * length t) ++ post)
                         (length pre + length e * k) e
                  = pre ++ (filled ++ e) ++ repeat 0%N (length e * length t) ++ post).
      { rewrite (app_assoc pre filled). replace (length pre + length e * k) with (length (pre ++ filled))
          by (rewrite app_length; lia).
        rewrite update_app_r. rewrite <- !app_assoc. f_equal. f_equal. f_equal.
        rewrite skipn_app, repeat_length, Nat.sub_diag. rewrite skipn_all2 by (rewrite repeat_length; lia).
        reflexivity. }
      rewrite E. rewrite (IH (filled ++ e) pre post Ht (S k)).
      + now rewrite <- !app_assoc.
      + rewrite app_length. lia. }
  intros pre Hf post. pose proof (G entries [] pre post Hf 0) as H. cbn [app] in H. apply H. cbn [length]; lia.
Qed.

(* C15 (fixed code), closed form: header, then exactly the named threads' entries in order, then their
   name strings in order; everything before is untouched; each entry points at its own string. *)
Fixpoint name_rvas (pos : nat) (nms : list (N * list N)) : list nat :=
  match nms with [] => [] | x :: t => pos :: name_rvas (pos + length (md_string (snd x))) t end.

Theorem names_write_fixed ths buf :
  let nms := named ths in
  let n := length nms in
  let str0 := length buf + 4 + 12 * n in
  names_write true ths buf =
    Ok (buf ++ le 4 (N.of_nat n)
            ++ concat (map (fun '(x, p) => name_entry (fst x) p) (combine nms (name_rvas str0 nms)))
            ++ concat (map (fun x => md_string (snd x)) nms),
        (u32 (length buf), N.of_nat (4 + 12 * n))).
Proof.
  intros nms n str0. unfold names_write. fold nms. fold n.
  rewrite names_loop_fixed. fold nms.
  rewrite (fill_loop_closed _ 12 emit_name emit_name_size).
  2:{ rewrite !app_length, le_length, repeat_length. fold n. lia. }
  cbv zeta. f_equal. f_equal.
  set (buf1 := buf ++ le 4 (N.of_nat n) ++ repeat 0%N (12 * n)).
  assert (Hlen : length buf1 = str0).
  { unfold buf1, str0. rewrite !app_length, le_length, repeat_length. lia. }
  rewrite Hlen.
  (* entries and blobs of the closed form *)
  assert (Hsnd : forall l p, map snd (emitted _ emit_name l p)
                 = map (fun '(x, q) => name_entry (fst x) q) (combine l (name_rvas p l))).
  { induction l as [|x l IH]; intro p; cbn [emitted map name_rvas combine]; [reflexivity|].
    unfold emit_name at 1 2. cbn [fst snd]. f_equal. apply IH. }
  assert (Hfst : forall l p, map fst (emitted _ emit_name l p) = map (fun x => md_string (snd x)) l).
  { induction l as [|x l IH]; intro p; cbn [emitted map]; [reflexivity|].
    unfold emit_name at 1. cbn [fst]. f_equal. apply IH. }
  rewrite Hsnd, Hfst.
  unfold buf1. rewrite (app_assoc buf (le 4 _)).
  replace (length buf + 4) with (length (buf ++ le 4 (N.of_nat n))) by (rewrite app_length, le_length; lia).
  set (entries := map (fun '(x, q) => name_entry (fst x) q) (combine nms (name_rvas str0 nms))).
  assert (Hn : length entries = n).
  { unfold entries. rewrite map_length, combine_length.
    assert (forall l p, length (name_rvas p l) = length l) as Hr by (induction l; intro; cbn; auto).
    rewrite Hr. unfold n. lia. }
  rewrite <- Hn.
  rewrite <- (app_nil_r (repeat 0%N (12 * length entries))).
  rewrite fill_slots_concat.
  - rewrite app_nil_r. now rewrite <- !app_assoc.
  - unfold entries. apply Forall_forall. intros e He. apply in_map_iff in He.
    destruct He as ((x, q) & <- & _). unfold name_entry. now rewrite app_length, !le_length.
Qed.
Print Assumptions names_write_fixed.

(* the unchanged code: two threads, the first unnamed — the entry is written past its 1-slot array *)
Definition ths2 : list thread := [(1%N, None); (2%N, Some [97%N])].
Example names_orig_slot0_empty :
  match names_write false ths2 [] with Ok (b, _) => slice b 4 4 | _ => [] end = [0;0;0;0]%N.
Proof. vm_compute. reflexivity. Qed.
Example names_fixed_slot0_tid2 :
  match names_write true ths2 [] with Ok (b, _) => slice b 4 4 | _ => [] end = [2;0;0;0]%N.
Proof. vm_compute. reflexivity. Qed.
Definition out_len (o : outcome (bytes * (N * N))) : nat := match o with Ok (b, _) => length b | _ => 0 end.
Example names_orig_overruns : out_len (names_write false ths2 []) = 28.
Proof. vm_compute. reflexivity. Qed.
Example names_fixed_len : out_len (names_write true ths2 []) = 22.
Proof. vm_compute. reflexivity. Qed.
