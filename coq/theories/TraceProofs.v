(* C09/C10 on the destination-call trace. *)
From Coq Require Import List NArith ZArith Arith Lia Bool ZifyNat ZifyN ZifyBool.
From MDW Require Import Bytes DirSection DirSectionProofs Prefix DirTrace.
Import ListNotations.
Local Open Scope nat_scope.

(* the trace model issues exactly the calls whose net effect is DirSection.write_to_file *)
Lemma dseek_self d : dseek d (d_pos d) = d.
Proof. destruct d; reflexivity. Qed.
Lemma dwrite_pos d v : d_pos (dwrite d v) = d_pos d + length v.
Proof. destruct v; cbn; lia. Qed.

Lemma wtf_calls_sound ef buf s d e :
  let '(buf', s', cs) := wtf_calls ef buf s (d_pos d) e in
  write_to_file ef buf s d e = (buf', s', run_calls d cs).
Proof.
  unfold wtf_calls, write_to_file, flush, dump_dir_entry, run_calls, dirent_calls, set_last, bump.
  destruct e as [x|]; [destruct ef|]; cbn [fold_left apply_call app ds_idx ds_sec ds_n ds_start ds_last].
  - rewrite dseek_self. cbn [dseek d_pos d_bytes]. reflexivity.
  - rewrite <- dwrite_pos. rewrite dseek_self. cbn [dseek d_pos d_bytes]. reflexivity.
  - reflexivity.
Qed.

Definition region (pre : bytes) (d : dest) : bytes := skipn (length pre) (d_bytes d).

(* C10 for one write_to_file in the data-first order: after EVERY destination call the region is a
   consistent truncated minidump *)
Theorem data_first_all_prefixes pre buf s d e :
  Inv pre [] buf s d -> length e = 12 -> ds_idx s < ds_n s ->
  consistent (firstn (ds_last s) buf) (ds_sec s) (ds_n s) ->
  (forall i, i < ds_n s -> entry_ok (slice buf (ds_sec s + 12 * i) 12) (length buf)) ->
  ds_sec s + 12 * ds_n s <= ds_last s ->
  entry_ok e (length buf) ->
  let '(_, _, cs) := wtf_calls false buf s (d_pos d) (Some e) in
  Forall (fun d' => consistent (region pre d') (ds_sec s) (ds_n s)) (snapshots d cs).
Proof.
  intros HI He Hidx Hc Hall Hsec Hok.
  pose proof (data_first_prefixes pre buf s d e HI He Hidx Hc Hall Hsec Hok) as H.
  cbv zeta in H. destruct H as (Hr1 & Hc1 & Hr2 & Hc2).
  unfold wtf_calls, dirent_calls. cbn [snapshots apply_call app].
  unfold region.
  repeat (apply Forall_cons; [cbn [dseek dwrite d_bytes d_pos] in *|]); try apply Forall_nil.
  - exact Hc1.
  - exact Hc1.
  - exact Hc1.
  - cbn [dseek d_bytes d_pos bump ds_idx ds_sec ds_start] in *. exact Hc2.
  - cbn [dseek d_bytes d_pos bump ds_idx ds_sec ds_start] in *. exact Hc2.
Qed.

(* a flush without entry: one call, after which the region is the image *)
Theorem flush_prefix pre buf s d :
  Inv pre [] buf s d ->
  (forall i, i < ds_n s -> entry_ok (slice buf (ds_sec s + 12 * i) 12) (length buf)) ->
  ds_sec s + 12 * ds_n s <= length buf ->
  let '(_, _, cs) := wtf_calls false buf s (d_pos d) None in
  Forall (fun d' => region pre d' = buf /\ consistent (region pre d') (ds_sec s) (ds_n s)) (snapshots d cs).
Proof.
  intros HI Hall Hsec. unfold wtf_calls. cbn [snapshots apply_call].
  apply Forall_cons; [|apply Forall_nil].
  pose proof (flush_inv pre [] buf s d HI) as HI1.
  assert (Hr : region pre (dwrite d (skipn (ds_last s) buf)) = buf).
  { unfold region. destruct HI1 as [_ Hb _ _]. cbn [set_last ds_last] in Hb. rewrite Hb, firstn_all.
    rewrite skipn_app, skipn_all, Nat.sub_diag. cbn [skipn app]. rewrite skipn_nil. now rewrite app_nil_r. }
  split; [exact Hr|]. rewrite Hr. split; [exact Hsec|exact Hall].
Qed.

