From Coq Require Import List NArith Arith Bool Lia.
From MDW Require Import Bytes Maps EffPath SoVersion ThreadList Modules.
Import ListNotations.
Local Open Scope N_scope.

(* each qualifying mapping is listed, with base / size = its (merged) extent and the identifier found *)
Theorem qualifying_listed ms tbl users m nm e id :
  In m ms -> m_name m = Some nm -> interesting m = true -> contained m (map (fun u => (um_start u, um_size u)) users) = false ->
  lookup tbl nm (m_off m) = Some e -> ei_id e = Some id -> usable_id id = true ->
  In (module_of m id (ei_soname e)) (module_list ms tbl users).
Proof.
  intros Hin Hn Hi Hc Hl He Hu. unfold module_list. apply in_or_app. left. unfold target_modules.
  apply in_flat_map. exists m. split; [exact Hin|]. rewrite Hi, Hc, Hn, Hl, He, Hu. now left.
Qed.

(* nothing else from the target is listed: every target-derived module comes from such a mapping *)
Theorem listed_qualifies ms tbl users md :
  In md (target_modules ms tbl users) ->
  exists m nm e id, In m ms /\ m_name m = Some nm /\ interesting m = true /\ contained m users = false /\
                    lookup tbl nm (m_off m) = Some e /\ ei_id e = Some id /\ usable_id id = true /\ md = module_of m id (ei_soname e).
Proof.
  unfold target_modules. intro H. apply in_flat_map in H. destruct H as (m & Hin & H).
  destruct (interesting m) eqn:Hi; [|destruct H]. destruct (contained m users) eqn:Hc; [destruct H|]. cbn [negb andb] in H.
  destruct (m_name m) as [nm|] eqn:Hn; [|destruct H]. destruct (lookup tbl nm (m_off m)) as [e|] eqn:Hl; [|destruct H].
  destruct (ei_id e) as [id|] eqn:He; [|destruct H]. destruct (usable_id id) eqn:Hu; [|destruct H].
  destruct H as [<-|[]]. exists m, nm, e, id. repeat split; auto.
Qed.

(* module base/size are the mapping's extent; order follows the dumper's mapping order (entry-point first) *)
Theorem module_extent m id so : md_base (module_of m id so) = m_start m /\ md_size (module_of m id so) = m_size m mod 2 ^ 32 /\ md_id (module_of m id so) = id.
Proof. repeat split. Qed.

Theorem target_modules_app ms1 ms2 tbl users :
  target_modules (ms1 ++ ms2) tbl users = target_modules ms1 tbl users ++ target_modules ms2 tbl users.
Proof. unfold target_modules. now rewrite flat_map_app. Qed.

(* caller-supplied mappings are listed verbatim, after the target's modules *)
Theorem users_verbatim ms tbl users : exists pre, module_list ms tbl users = pre ++ map user_module users.
Proof. unfold module_list. eexists; reflexivity. Qed.

(* ... and suppress target mappings they wholly contain *)
Theorem contained_suppressed ms tbl users md m :
  In md (target_modules ms tbl users) -> md_base md = m_start m -> In m ms -> contained m users = true ->
  (forall m', In m' ms -> m_start m' = m_start m -> m' = m) -> False.
Proof.
  intros H Hb Hin Hc Huniq. destruct (listed_qualifies _ _ _ _ H) as (m' & nm & e & id & Hin' & _ & _ & Hc' & _ & _ & _ & ->).
  cbn [module_of md_base] in Hb. rewrite (Huniq m' Hin' Hb) in Hc'. congruence.
Qed.
