From Coq Require Import List NArith ZArith Arith Lia Bool ZifyNat ZifyN ZifyBool.
From MDW Require Import Bytes DirSection DirSectionProofs.
Import ListNotations.
Open Scope nat_scope.

(* a directory entry: stream type, data size, rva (little-endian u32 each) *)
Definition e_type (e : bytes) : N := unle (slice e 0 4).
Definition e_size (e : bytes) : N := unle (slice e 4 4).
Definition e_rva  (e : bytes) : N := unle (slice e 8 4).
Definition entry_ok (e : bytes) (len : nat) : Prop :=
  e = repeat 0%N 12 \/ (N.to_nat (e_rva e) + N.to_nat (e_size e) <= len).

(* the region [r] (what has reached the destination, counted from the starting position) is a
   consistent truncated minidump w.r.t. a directory of n entries at offset sec *)
Definition consistent (r : bytes) (sec n : nat) : Prop :=
  sec + 12 * n <= length r /\ forall i, i < n -> entry_ok (slice r (sec + 12 * i) 12) (length r).

Lemma consistent_grow r sec n tail : consistent r sec n -> consistent (r ++ tail) sec n.
Proof.
  intros (Hl & He). split; [rewrite app_length; lia|]. intros i Hi.
  assert (Hs : slice (r ++ tail) (sec + 12 * i) 12 = slice r (sec + 12 * i) 12).
  { unfold slice. rewrite skipn_app. replace (sec + 12 * i - length r) with 0 by nia. cbn [skipn].
    rewrite firstn_app. rewrite skipn_length. replace (12 - (length r - (sec + 12 * i))) with 0 by nia.
    cbn [firstn]. now rewrite app_nil_r. }
  rewrite Hs. destruct (He i Hi) as [Hz|Hx]; [now left|right]. rewrite app_length. lia.
Qed.

Lemma consistent_entry r sec n idx e :
  consistent r sec n -> idx < n -> length e = 12 -> entry_ok e (length r) ->
  consistent (update r (sec + 12 * idx) e) sec n.
Proof.
  intros (Hl & He) Hi Hlen Hok. assert (Hul : length (update r (sec + 12 * idx) e) = length r) by (apply update_length; nia).
  split; [rewrite Hul; exact Hl|]. intros i Hin. rewrite Hul.
  destruct (Nat.eq_dec i idx) as [->|Hne].
  - pose proof (slice_update_same r (sec + 12 * idx) e) as E. rewrite Hlen in E. rewrite E by nia. exact Hok.
  - destruct (Nat.lt_ge_cases i idx).
    + rewrite slice_update_before by nia. now apply He.
    + rewrite slice_update_after by nia. now apply He.
Qed.

(* C10, one write_to_file in the repaired order (data first), destination initially empty beyond [pre]:
   after each of its destination calls the region is consistent *)
Theorem data_first_prefixes pre buf s d e :
  Inv pre [] buf s d -> length e = 12 -> ds_idx s < ds_n s ->
  consistent (firstn (ds_last s) buf) (ds_sec s) (ds_n s) ->      (* what is on the destination now *)
  (forall i, i < ds_n s -> entry_ok (slice buf (ds_sec s + 12 * i) 12) (length buf)) ->
  ds_sec s + 12 * ds_n s <= ds_last s ->
  entry_ok e (length buf) ->
  let d1 := dwrite d (skipn (ds_last s) buf) in                   (* call 1: stream bytes *)
  let r1 := skipn (length pre) (d_bytes d1) in
  let buf2 := update buf (ds_sec s + 12 * ds_idx s) e in
  let d2 := dwrite (dseek d1 (ds_start s + (ds_sec s + 12 * ds_idx s))) (slice buf2 (ds_sec s + 12 * ds_idx s) 12) in
  let r2 := skipn (length pre) (d_bytes d2) in                    (* call 3: the entry (call 2 is the seek) *)
  r1 = buf /\ consistent r1 (ds_sec s) (ds_n s) /\ r2 = buf2 /\ consistent r2 (ds_sec s) (ds_n s).
Proof.
  intros HI He Hidx Hc Hall Hsec Hok d1 r1 buf2 d2 r2.
  pose proof (flush_inv pre [] buf s d HI) as HI1. fold d1 in HI1.
  assert (Hr1 : r1 = buf).
  { unfold r1. destruct HI1 as [_ Hb _ _]. cbn [set_last ds_last] in Hb. rewrite Hb, firstn_all.
    rewrite skipn_app, skipn_all, Nat.sub_diag. cbn [skipn app]. rewrite skipn_nil. now rewrite app_nil_r. }
  assert (Hc1 : consistent buf (ds_sec s) (ds_n s)).
  { split; [destruct HI; lia|exact Hall]. }
  split; [exact Hr1|]. split; [now rewrite Hr1|].
  assert (Hin : ds_sec (set_last s (length buf)) + 12 * ds_idx (set_last s (length buf)) + 12 <= ds_last (set_last s (length buf))).
  { cbn [set_last ds_sec ds_idx ds_last]. destruct HI. nia. }
  pose proof (entry_inv pre [] buf (set_last s (length buf)) d1 e HI1 He Hin) as H.
  unfold dump_dir_entry in H. cbn [set_last ds_sec ds_idx ds_start ds_n ds_last] in H.
  fold buf2 in H. fold d2 in H. destruct H as (HI2 & _ & Hlen2).
  assert (Hr2 : r2 = buf2).
  { unfold r2. destruct HI2 as [_ Hb _ _]. cbn [ds_last d_bytes dseek] in Hb. rewrite Hb.
    rewrite <- Hlen2, firstn_all. rewrite skipn_app, skipn_all, Nat.sub_diag. cbn [skipn app].
    rewrite skipn_nil. now rewrite app_nil_r. }
  split; [exact Hr2|]. rewrite Hr2. unfold buf2. apply consistent_entry; auto.
Qed.
Print Assumptions data_first_prefixes.

(* unchanged order: after the entry is written, the destination names a stream that is not there *)
Example entry_first_dangling :
  let buf := repeat 0%N (32 + 12) ++ repeat 7%N 100 in                  (* header+1-entry directory flushed, 100 new bytes *)
  let s := {| ds_idx := 0; ds_sec := 32; ds_n := 1; ds_start := 0; ds_last := 44 |} in
  let d := {| d_bytes := repeat 0%N 44; d_pos := 44 |} in
  let e := le 4 3 ++ le 4 100 ++ le 4 44 in
  let '(_, _, d1) := dump_dir_entry buf s d e in
  length (d_bytes d1) = 44 /\ N.to_nat (e_rva (slice (d_bytes d1) 32 12)) + N.to_nat (e_size (slice (d_bytes d1) 32 12)) = 144.
Proof. vm_compute. split; reflexivity. Qed.
