(* C16: laws of every image-builder operation, for an arbitrary starting state. *)
From Coq Require Import List NArith ZArith Arith Lia Bool ZifyNat ZifyN ZifyBool.
From MDW Require Import Bytes MemWriter Text FillArray ThreadNames WriteString MemOps.
Import ListNotations.
Local Open Scope nat_scope.
Ltac Zify.zify_post_hook ::= Z.to_euclidean_division_equations.

Lemma skipn_repeat {A} (x : A) n m : skipn n (repeat x m) = repeat x (m - n).
Proof.
  revert m; induction n as [|n IH]; intro m; [now rewrite Nat.sub_0_r|].
  destruct m as [|m]; [reflexivity|]. cbn [repeat skipn]. apply IH.
Qed.

(* alloc_from_array / alloc_from_iter: a zeroed reservation filled element by element is the
   concatenation of the elements *)
Lemma fill_from_closed esz (vs : list bytes) : forall (b done : bytes) idx,
  Forall (fun v => length v = esz) vs ->
  length done = idx * esz ->
  fill_from (b ++ done ++ repeat 0%N (length vs * esz)) (length b) esz idx vs
  = Ok (b ++ done ++ concat vs).
Proof.
  induction vs as [|v vs IH]; intros b done idx Hf Hd.
  - cbn [fill_from length repeat concat Nat.mul]. reflexivity.
  - inversion Hf as [|v' vs' Hv Hvs]; subst v' vs'.
    cbn [fill_from length concat].
    assert (Hlen : length (b ++ done ++ repeat 0%N (S (length vs) * esz))
                   = length b + idx * esz + (esz + length vs * esz)).
    { rewrite !app_length, repeat_length. cbn [Nat.mul]. lia. }
    rewrite write_at_inside by (rewrite Hlen; lia).
    replace (length b + idx * esz) with (length b + length done) by lia.
    rewrite update_app_l.
    replace (length done) with (length done + 0) at 1 by lia.
    rewrite update_app_l.
    unfold update at 1. cbn [firstn app Nat.add].
    rewrite skipn_repeat.
    replace (S (length vs) * esz - length v) with (length vs * esz) by (cbn [Nat.mul]; lia).
    specialize (IH b (done ++ v) (S idx) Hvs).
    rewrite <- !app_assoc in IH. rewrite IH.
    + reflexivity.
    + rewrite app_length. cbn [Nat.mul]. lia.
Qed.

Lemma fill_from_fresh esz vs b :
  Forall (fun v => length v = esz) vs ->
  fill_from (b ++ repeat 0%N (length vs * esz)) (length b) esz 0 vs = Ok (b ++ concat vs).
Proof.
  intro Hf. pose proof (fill_from_closed esz vs b [] 0 Hf eq_refl) as H.
  cbn [app] in H. exact H.
Qed.

Lemma concat_length_const esz (vs : list bytes) :
  Forall (fun v => length v = esz) vs -> length (concat vs) = length vs * esz.
Proof.
  induction 1 as [|v vs Hv _ IH]; [reflexivity|]. cbn [concat length Nat.mul]. rewrite app_length. lia.
Qed.

(* what an allocating operation appends *)
Definition appended (o : op) : option bytes :=
  match o with
  | OAlloc size => Some (repeat 0%N size)
  | OAllocVal v => Some v
  | OAllocArray n esz => Some (repeat 0%N (n * esz))
  | OFromArray vs esz => Some (concat vs)
  | OBytes v => Some v
  | OString s => Some (md_string s)
  | OSet _ _ | OSetAt _ _ _ => None
  end.

Definition well_typed (o : op) : Prop :=
  match o with
  | OFromArray vs esz => Forall (fun v => length v = esz) vs
  | _ => True
  end.

(* Law 1: reserving or writing appends exactly the serialised size at the current end and
   returns (offset, size); nothing earlier moves. *)
Theorem alloc_appends s o c :
  appended o = Some c -> well_typed o ->
  exists s', step s o = Ok (s', (u32 (length (buf s)), u32 (length c))) /\ buf s' = buf s ++ c.
Proof.
  destruct o as [size|v|k v|n esz|k idx v|vs esz|v|str]; cbn [appended]; intros E Hw; try discriminate;
    injection E as <-.
  - cbn [step alloc reserve]. eexists; split.
    { cbn [l_rva]. rewrite repeat_length. reflexivity. } reflexivity.
  - cbn [step]. rewrite alloc_with_val_law. cbn [l_rva]. eexists; split; reflexivity.
  - cbn [step alloc_array reserve]. eexists; split.
    { rewrite repeat_length. reflexivity. } reflexivity.
  - cbn [step reserve well_typed] in *. rewrite fill_from_fresh by assumption.
    eexists; split.
    { rewrite (concat_length_const esz) by assumption. reflexivity. } reflexivity.
  - cbn [step]. eexists; split; reflexivity.
  - cbn [step]. rewrite write_string_closed. cbn [l_rva l_size]. eexists; split.
    { unfold u32N, u32. reflexivity. } reflexivity.
Qed.

(* Law 2: filling a reserved slot later changes only that slot. *)
Theorem set_changes_only_slot s k v pos size s' out :
  nth_error (singles s) k = Some (pos, size) -> length v = size ->
  N.to_nat pos + size <= length (buf s) ->
  step s (OSet k v) = Ok (s', out) ->
  length (buf s') = length (buf s) /\
  slice (buf s') (N.to_nat pos) size = v /\
  (forall o n, o + n <= N.to_nat pos -> slice (buf s') o n = slice (buf s) o n) /\
  (forall o n, N.to_nat pos + size <= o -> slice (buf s') o n = slice (buf s) o n).
Proof.
  intros Hk Hv Hb E. cbn [step] in E. rewrite Hk in E.
  destruct (set_value (buf s) pos v) as [b'| |] eqn:Es; try discriminate.
  injection E as <- _. cbn [buf]. subst size.
  exact (set_value_law (buf s) pos v b' Hb Es).
Qed.

(* Law 3: element idx of an array lives at base + idx * element size; other elements untouched. *)
Theorem set_at_element s k idx v pos esz n s' out :
  nth_error (arrays s) k = Some (pos, esz, n) -> length v = esz -> idx < n ->
  N.to_nat pos + n * esz <= length (buf s) ->
  step s (OSetAt k idx v) = Ok (s', out) ->
  length (buf s') = length (buf s) /\
  slice (buf s') (N.to_nat pos + idx * esz) esz = v /\
  (forall j, j < n -> j <> idx ->
     slice (buf s') (N.to_nat pos + j * esz) esz = slice (buf s) (N.to_nat pos + j * esz) esz) /\
  (forall o m, o + m <= N.to_nat pos -> slice (buf s') o m = slice (buf s) o m) /\
  (forall o m, N.to_nat pos + n * esz <= o -> slice (buf s') o m = slice (buf s) o m).
Proof.
  intros Hk Hv Hi Hb E. cbn [step] in E. rewrite Hk in E.
  destruct (set_value_at (buf s) pos esz idx v) as [b'| |] eqn:Es; try discriminate.
  injection E as <- _. cbn [buf].
  destruct (set_value_at_law (buf s) pos esz n idx v b' Hv Hi Hb Es) as (H1 & H2 & H3).
  repeat split; try assumption.
  - intros o m Ho. unfold set_value_at in Es.
    rewrite write_at_inside in Es by nia. injection Es as <-. apply slice_update_before; nia.
  - intros o m Ho. unfold set_value_at in Es.
    rewrite write_at_inside in Es by nia. injection Es as <-. apply slice_update_after; nia.
Qed.

(* Law 4: strings. *)
Theorem string_stored str :
  Forall scalar str ->
  exists units, md_string str = le 4 (2 * N.of_nat (length units)) ++ flat_map (le 2) units
                /\ length (flat_map (le 2) units) = 2 * length units
                /\ utf16_decode units = Some str.
Proof.
  intro Hs. exists (utf16 str). split; [reflexivity|]. split.
  - clear. induction (utf16 str) as [|u t IH]; [reflexivity|].
    cbn [flat_map]. rewrite app_length, le_length, IH. cbn [length]. lia.
  - now apply utf16_roundtrip.
Qed.
