From Coq Require Import List NArith Arith Lia.
Import ListNotations.
Open Scope N_scope.

Definition bytes := list N.

(* little-endian serialisation of the low [w] bytes of [v] *)
Fixpoint le (w : nat) (v : N) : bytes :=
  match w with
  | O => []
  | S w' => (v mod 256) :: le w' (v / 256)
  end.

Fixpoint unle (b : bytes) : N :=
  match b with
  | [] => 0
  | x :: t => x + 256 * unle t
  end.

(* big-endian decoding: the same bytes read from the other end *)
Definition unbe (b : bytes) : N := unle (rev b).
Lemma le_length w v : length (le w v) = w.
Proof. revert v; induction w as [|w IH]; intro v; cbn [le length]; [reflexivity|now rewrite IH]. Qed.

Lemma unle_le w v : unle (le w v) = v mod 256 ^ N.of_nat w.
Proof.
  revert v; induction w as [|w IH]; intro v.
  - cbn. now rewrite N.mod_1_r.
  - cbn [le unle]. rewrite IH. rewrite Nat2N.inj_succ, N.pow_succ_r'.
    rewrite N.mod_mul_r by (try lia; apply N.pow_nonzero; lia). reflexivity.
Qed.

(* slice and in-place update *)
Definition slice (b : bytes) (off n : nat) : bytes := firstn n (skipn off b).
Definition update (b : bytes) (off : nat) (new : bytes) : bytes :=
  firstn off b ++ new ++ skipn (off + length new) b.

Lemma update_length b off new :
  (off + length new <= length b)%nat -> length (update b off new) = length b.
Proof.
  intro H. unfold update. rewrite !app_length, firstn_length, skipn_length. lia.
Qed.

Lemma slice_update_same b off new :
  (off + length new <= length b)%nat -> slice (update b off new) off (length new) = new.
Proof.
  intro H. unfold slice, update.
  rewrite skipn_app, firstn_length, Nat.min_l by lia.
  rewrite skipn_all2 by (rewrite firstn_length; lia).
  replace (off - off)%nat with 0%nat by lia. cbn [skipn app].
  rewrite firstn_app, Nat.sub_diag, firstn_all. cbn [firstn]. now rewrite app_nil_r.
Qed.

Lemma slice_update_before b off new o n :
  (o + n <= off)%nat -> (off <= length b)%nat ->
  slice (update b off new) o n = slice b o n.
Proof.
  intros H Hl. unfold slice, update.
  rewrite skipn_app, firstn_length, Nat.min_l by lia.
  replace (o - off)%nat with 0%nat by lia. cbn [skipn].
  rewrite firstn_app, skipn_length, firstn_length, Nat.min_l by lia.
  replace (n - (off - o))%nat with 0%nat by lia. cbn [firstn]. rewrite app_nil_r.
  rewrite skipn_firstn_comm. rewrite firstn_firstn. now rewrite Nat.min_l by lia.
Qed.

Lemma skipn_add {A} (l : list A) m n : skipn n (skipn m l) = skipn (m + n) l.
Proof.
  revert l; induction m as [|m IH]; intro l; [reflexivity|].
  destruct l as [|x t]; [now rewrite !skipn_nil|]. cbn [skipn plus]. apply IH.
Qed.

Lemma slice_update_after b off new o n :
  (off + length new <= o)%nat -> (off + length new <= length b)%nat ->
  slice (update b off new) o n = slice b o n.
Proof.
  intros H Hl. unfold slice, update.
  rewrite app_assoc. rewrite skipn_app.
  rewrite app_length, firstn_length, Nat.min_l by lia.
  rewrite (skipn_all2 (firstn off b ++ new)) by (rewrite app_length, firstn_length; lia).
  cbn [app]. rewrite skipn_add. f_equal. f_equal. lia.
Qed.

Open Scope nat_scope.

Lemma update_app_in (x t v : bytes) o : o + length v <= length x -> update (x ++ t) o v = update x o v ++ t.
Proof.
  intro H. unfold update. rewrite firstn_app. replace (o - length x) with 0 by lia. cbn [firstn].
  rewrite app_nil_r. rewrite skipn_app. replace (o + length v - length x) with 0 by lia. cbn [skipn].
  now rewrite <- !app_assoc.
Qed.

Lemma update_app_r (a b v : bytes) : update (a ++ b) (length a) v = a ++ v ++ skipn (length v) b.
Proof.
  unfold update. rewrite firstn_app, Nat.sub_diag, firstn_all. cbn [firstn]. rewrite app_nil_r.
  rewrite skipn_app. rewrite (skipn_all2 a) by lia. cbn [app].
  replace (length a + length v - length a)%nat%nat with (length v) by lia. reflexivity.
Qed.


Lemma update_app_l (a b v : bytes) o : update (a ++ b) (length a + o) v = a ++ update b o v.
Proof.
  unfold update. rewrite firstn_app, firstn_all2 by lia.
  replace (length a + o - length a) with o by lia.
  rewrite skipn_app, skipn_all2 by lia. cbn [app].
  replace (length a + o + length v - length a) with (o + length v) by lia.
  now rewrite <- app_assoc.
Qed.

