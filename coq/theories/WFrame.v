(* Frame laws of the whole-image combinators: a program started when the image has at least F bytes never changes the
   first F bytes (for images below 4 GiB, where the stored u32 positions are exact) and never shrinks the image. *)
From Coq Require Import List NArith ZArith Arith Lia Bool ZifyNat ZifyN ZifyBool.
From MDW Require Import Bytes MemWriter Writer Hoare MiniDump MiniDumpProofs WComb.
Import ListNotations.
Local Open Scope nat_scope.

Definition frame {A} (F : nat) (m : W A) : Prop :=
  forall s a s', m s = Ok (a, s') -> F <= blen s ->
    blen s <= blen s' /\ (small (blen s') -> firstn F (w_buf s') = firstn F (w_buf s)).

Lemma small_le a b : a <= b -> small b -> small a.
Proof. unfold small. lia. Qed.
Lemma small_u32 n : small n -> N.to_nat (u32 n) = n.
Proof. unfold small, u32. intro H. rewrite N.mod_small by exact H. lia. Qed.

Lemma frame_ret {A} F (a : A) : frame F (ret a).
Proof. intros s a' s' E _. injection E as <- <-. split; [lia|reflexivity]. Qed.

Lemma frame_bind {A B} F (m : W A) (f : A -> W B) : frame F m -> (forall a, frame F (f a)) -> frame F (bind m f).
Proof.
  intros Hm Hf s b s2 E HF. unfold bind in E. destruct (m s) as [[a s1]| |] eqn:E1; try discriminate.
  destruct (Hm _ _ _ E1 HF) as (L1 & K1). destruct (Hf a _ _ _ E ltac:(lia)) as (L2 & K2).
  split; [lia|]. intro Hs. rewrite (K2 Hs). apply K1. eapply small_le; [|exact Hs]. exact L2.
Qed.

Lemma frame_alloc F k v : frame F (w_alloc k v).
Proof.
  intros s l s' E HF. injection E as <- <-. unfold blen in *. cbn [w_buf]. rewrite app_length. split; [lia|].
  intros _. rewrite firstn_app. replace (F - length (w_buf s)) with 0 by lia. cbn [firstn]. now rewrite app_nil_r.
Qed.
Lemma frame_ref F k l : frame F (w_ref k l).
Proof. intros s u s' E _. injection E as <- <-. split; [unfold blen; cbn; lia|reflexivity]. Qed.
Lemma frame_pos F : frame F w_pos.
Proof. intros s p s' E _. injection E as <- <-. split; [lia|reflexivity]. Qed.
Lemma frame_blob F k v : frame F (w_blob k v).
Proof. unfold w_blob. apply frame_bind; [apply frame_alloc|]. intro l. apply frame_bind; [apply frame_ref|]. intros _. apply frame_ret. Qed.

(* write_at never shrinks, and keeps everything before the offset *)
Lemma write_at_frame b off v b' : write_at b off v = Ok b' ->
  length b <= length b' /\ firstn off b' = firstn off b /\ off <= length b.
Proof.
  unfold write_at. destruct (length b <? off) eqn:E1; [discriminate|]. apply Nat.ltb_ge in E1.
  intro H. injection H as <-.
  set (b1 := if length b - off <? length v then b ++ repeat 0%N (length v - (length b - off)) else b).
  assert (Hb1 : length b <= length b1 /\ off + length v <= length b1 /\ firstn off b1 = firstn off b).
  { unfold b1. destruct (length b - off <? length v) eqn:E2.
    - apply Nat.ltb_lt in E2. rewrite app_length, repeat_length. split; [lia|]. split; [lia|].
      rewrite firstn_app. replace (off - length b) with 0 by lia. cbn [firstn]. now rewrite app_nil_r.
    - apply Nat.ltb_ge in E2. split; [lia|]. split; [lia|reflexivity]. }
  destruct Hb1 as (L & I & Fr). rewrite update_length by exact I. split; [exact L|]. split; [|exact E1].
  unfold update. rewrite firstn_app, firstn_firstn, Nat.min_id, firstn_length, Nat.min_l by lia.
  rewrite Nat.sub_diag. cbn [firstn]. rewrite app_nil_r. exact Fr.
Qed.

Lemma firstn_le_eq {A} F off (a b : list A) : F <= off -> firstn off a = firstn off b -> firstn F a = firstn F b.
Proof.
  intros H E. replace F with (Nat.min F off) by lia. rewrite <- !firstn_firstn. now rewrite E.
Qed.

Lemma frame_patch F off v : F <= off -> frame F (w_patch off v).
Proof.
  intros HF s u s' E _. unfold w_patch in E. destruct (write_at (w_buf s) off v) as [b'| |] eqn:Ew; try discriminate.
  injection E as <- <-. destruct (write_at_frame _ _ _ _ Ew) as (L & Fr & _). unfold blen. cbn [w_buf]. split; [exact L|].
  intros _. eapply firstn_le_eq; eauto.
Qed.

Section ArrayFrame.
  Context {X R St : Type}.
  Variable size : nat.
  Variable enc : R -> bytes.
  Variable body : X -> St -> W (R * St).
  Hypothesis body_frame : forall F x st, frame F (body x st).

  Lemma frame_fill_from F base : F <= base -> forall xs idx st, frame F (fill_from size enc body base idx xs st).
  Proof.
    intro HF. induction xs as [|x r IH]; intros idx st; cbn [fill_from]; [apply frame_ret|].
    apply frame_bind; [apply body_frame|]. intro p. apply frame_bind; [apply frame_patch; lia|]. intros _. apply IH.
  Qed.

  Lemma frame_array F exact k xs st : frame F (w_array size enc body exact k xs st).
  Proof.
    intros s r s' E HF. unfold w_array in E. unfold bind at 1 in E. cbn [w_pos] in E.
    unfold bind at 1 in E. cbn [w_alloc] in E.
    set (s1 := {| w_buf := w_buf s ++ repeat 0%N (size * length xs); w_objs := _; w_refs := w_refs s |}) in E.
    cbn [l_rva] in E.
    set (base := if exact then length (w_buf s) else N.to_nat (u32 (length (w_buf s)))) in E.
    unfold bind in E. destruct (fill_from size enc body base 0 xs st s1) as [[st' s2]| |] eqn:E2; try discriminate.
    injection E as <- <-.
    assert (L1 : blen s <= blen s1) by (unfold blen, s1; cbn [w_buf]; rewrite app_length; lia).
    destruct (frame_fill_from 0 base ltac:(lia) xs 0 st s1 st' s2 E2 ltac:(lia)) as (L2 & _).
    split; [lia|]. intro Hs.
    assert (Hbase : base = blen s).
    { unfold base. destruct exact; [reflexivity|]. apply small_u32. eapply small_le; [|exact Hs]. lia. }
    destruct (frame_fill_from F base ltac:(lia) xs 0 st s1 st' s2 E2 ltac:(lia)) as (_ & K2).
    rewrite (K2 Hs). unfold s1. cbn [w_buf]. rewrite firstn_app. unfold blen in HF.
    replace (F - length (w_buf s)) with 0 by lia. cbn [firstn]. now rewrite app_nil_r.
  Qed.

  Lemma frame_span_array F exact ty hdr xs st : frame F (w_span_array size enc body exact ty hdr xs st).
  Proof.
    unfold w_span_array. apply frame_bind; [apply frame_alloc|]. intro h. apply frame_bind; [apply frame_array|]. intro r. apply frame_ret.
  Qed.

  Lemma frame_collect F : forall xs st, frame F (w_collect body xs st).
  Proof.
    induction xs as [|x r IH]; intro st; cbn [w_collect]; [apply frame_ret|].
    apply frame_bind; [apply body_frame|]. intro p. apply frame_bind; [apply IH|]. intro q. apply frame_ret.
  Qed.
End ArrayFrame.

Lemma frame_slot {R} F size (enc : R -> bytes) k (body : W R) : (forall F', frame F' body) -> frame F (w_slot size enc k body).
Proof.
  intros Hbody s l s' E HF. unfold w_slot in E. unfold bind at 1 in E. cbn [w_alloc] in E.
  set (s1 := {| w_buf := w_buf s ++ repeat 0%N size; w_objs := _; w_refs := w_refs s |}) in E. cbn [l_rva] in E.
  unfold bind at 1 in E. destruct (body s1) as [[r s2]| |] eqn:E2; try discriminate.
  unfold bind in E. destruct (w_patch (N.to_nat (u32 (length (w_buf s)))) (enc r) s2) as [[u s3]| |] eqn:E3; try discriminate.
  injection E as <- <-.
  assert (L1 : blen s <= blen s1) by (unfold blen, s1; cbn [w_buf]; rewrite app_length; lia).
  destruct (Hbody 0 _ _ _ E2 ltac:(lia)) as (L2 & _).
  destruct (frame_patch 0 _ _ ltac:(lia) _ _ _ E3 ltac:(lia)) as (L3 & _).
  split; [lia|]. intro Hs.
  assert (Hb : N.to_nat (u32 (length (w_buf s))) = blen s) by (apply small_u32; eapply small_le; [|exact Hs]; lia).
  assert (HFb : F <= N.to_nat (u32 (length (w_buf s)))) by (rewrite Hb; exact HF).
  destruct (frame_patch F _ (enc r) HFb _ _ _ E3 ltac:(lia)) as (_ & K3).
  destruct (Hbody F _ _ _ E2 ltac:(lia)) as (_ & K2).
  rewrite (K3 Hs), (K2 ltac:(eapply small_le; [|exact Hs]; lia)). unfold s1. cbn [w_buf]. rewrite firstn_app. unfold blen in HF.
  replace (F - length (w_buf s)) with 0 by lia. cbn [firstn]. now rewrite app_nil_r.
Qed.
