(* ABI entries for C09 / C10 *)
From Coq Require Import List NArith Arith Bool.
From MDW Require Import Bytes DirSection DirTrace AbiBase.
Import ListNotations.
Local Open Scope N_scope.

Fixpoint dec_dops (fuel : nat) (l : list N) : list dop :=
  match fuel with
  | O => []
  | S f =>
      match l with
      | 0 :: rest => let '(v, r) := take_vec rest in DGrow v :: dec_dops f r
      | 1 :: r => DFlush None :: dec_dops f r
      | 2 :: t :: sz :: rva :: r => DFlush (Some (le 4 t ++ le 4 sz ++ le 4 rva)) :: dec_dops f r
      | _ => []
      end
  end.

(* Adler-style digest of a byte string *)
Definition digest (b : bytes) : N * N :=
  fold_left (fun '(a, c) x => let a' := (a + x) mod 65521 in (a', (c + a') mod 65521)) b (1, 0).

Definition is_real_call (c : call) : bool := match c with CWrite [] => false | _ => true end.

Definition enc_dest (d : dest) : list N :=
  let '(a, c) := digest (d_bytes d) in [N.of_nat (length (d_bytes d)); N.of_nat (d_pos d); a; c].

(* run, reporting after every op: number of (non-empty) destination calls it made and the digest *)
Fixpoint run_report (ef : bool) (st : bytes * dirsec * dest) (ops : list dop) : list N * (bytes * dirsec * dest) :=
  match ops with
  | [] => ([], st)
  | o :: t =>
      let '(buf, s, d) := st in
      let ncalls := match o with
                    | DGrow _ => 0%nat
                    | DFlush e => let '(_, _, cs) := wtf_calls ef buf s (d_pos d) e in length (filter is_real_call cs)
                    end in
      let '(st1, _) := dstep ef st o in
      let '(_, _, d1) := st1 in
      let '(r, sf) := run_report ef st1 t in
      (N.of_nat ncalls :: enc_dest d1 ++ r, sf)
  end.

(* [ef; n; pos0; dest0 vec; buf0 vec; ops...] *)
Definition entry_c09 (args : list N) : list N :=
  match args with
  | ef :: n :: pos0 :: rest =>
      let '(dest0, rest1) := take_vec rest in
      let '(buf0, rest2) := take_vec rest1 in
      let ops := dec_dops (length rest2) rest2 in
      let d0 := {| d_bytes := dest0; d_pos := N.to_nat (N.min pos0 1000000) |} in
      let '(rep, (buf, s, d)) := run_report (n2b ef) (dstart buf0 (N.to_nat (N.min n 4096)) d0) ops in
      N.of_nat (length ops) :: rep ++ enc_vec (d_bytes d) ++ enc_vec buf
  | _ => []
  end.

(* [sec; n; region vec] -> [1] iff the region is a consistent truncated minidump *)
Definition entry_c10_consistent (args : list N) : list N :=
  match args with
  | sec :: n :: rest =>
      let '(r, _) := take_vec rest in
      [b2n (consistent_b r (N.to_nat (N.min sec 1000000)) (N.to_nat (N.min n 4096)))]
  | _ => [2]
  end.

