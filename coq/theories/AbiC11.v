(* ABI entry for C11 *)
From Coq Require Import List NArith Arith Bool.
From MDW Require Import SoftErr AbiBase.
Import ListNotations.
Local Open Scope N_scope.

Definition dec_attach (n : N) : attach := if n =? 1 then ASkip else if n =? 2 then AGone else AOk.
(* [stop; auxv; name; suspend; cpu; principal; os_release; dso; nthreads; attach codes...] -> encoded forest *)
Definition entry_c11_tree (args : list N) : list N :=
  match args with
  | a :: b :: c :: d :: e :: p :: o :: ds :: n :: rest =>
      let '(ts, _) := take (cnt n rest) rest in
      enc_forest (expected_tree {| f_stop := n2b a; f_auxv := n2b b; f_name := n2b c; f_suspend := n2b d; f_cpu := n2b e;
                                   f_threads := map dec_attach ts; f_principal := n2b p; f_os_release := n2b o; f_dso := n2b ds |})
  | _ => []
  end.
