(* C19: the state a writer carries from one dump request to the next.  [reset] = true is the repaired
   code (per-dump state cleared at the start of dump()), false the code before the repair. *)
From Coq Require Import List NArith Arith Bool.
From MDW Require Import Maps ThreadList.
Import ListNotations.
Local Open Scope N_scope.

Record wstate := {
  ws_blocks : list (N * N);             (* memory_blocks *)
  ws_crash_ctx : option N;              (* crashing_thread_context: rva of the blamed thread's context *)
  ws_principal : option minfo           (* resolved principal mapping *)
}.
Definition fresh : wstate := {| ws_blocks := []; ws_crash_ctx := None; ws_principal := None |}.

(* what one request observes *)
Record request := {
  rq_maps : list minfo; rq_threads : list tblocks; rq_app : list (N * N);
  rq_blamed_ctx : option N;             (* Some rva when the blamed thread is listed in this dump *)
  rq_skip : bool; rq_principal_addr : option N
}.

Definition resolve (ms : list minfo) (a : N) : option minfo :=
  find (fun m => (m_sys_start m <=? a) && (a <? m_sys_end m)) ms.

(* result of a request: memory list, exception context location, principal mapping used for filtering *)
Definition dump_once (reset : bool) (ws : wstate) (rq : request) : (list (N * N) * option N * option minfo) * wstate :=
  let ws0 := if reset then fresh else ws in
  let principal := if rq_skip rq
                   then match rq_principal_addr rq with Some a => resolve (rq_maps rq) a | None => ws_principal ws0 end
                   else ws_principal ws0 in
  let blocks := ws_blocks ws0 ++ memory_list (rq_maps rq) (rq_threads rq) (rq_app rq) in
  let ctx := match rq_blamed_ctx rq with Some c => Some c | None => ws_crash_ctx ws0 end in
  ((blocks, ctx, principal), {| ws_blocks := blocks; ws_crash_ctx := ctx; ws_principal := principal |}).

Fixpoint dump_seq (reset : bool) (ws : wstate) (rqs : list request) : list (list (N * N) * option N * option minfo) :=
  match rqs with
  | [] => []
  | rq :: t => let '(r, ws') := dump_once reset ws rq in r :: dump_seq reset ws' t
  end.

(* ---- proofs ---- *)
Theorem dump_once_independent ws rq : fst (dump_once true ws rq) = fst (dump_once true fresh rq).
Proof. reflexivity. Qed.

Theorem dump_seq_independent : forall rqs ws,
  dump_seq true ws rqs = map (fun rq => fst (dump_once true fresh rq)) rqs.
Proof.
  induction rqs as [|rq t IH]; intro ws; [reflexivity|].
  cbn [dump_seq map]. destruct (dump_once true ws rq) as (r, ws') eqn:E.
  rewrite IH. f_equal. change r with (fst (r, ws')). rewrite <- E. apply dump_once_independent.
Qed.

(* the unrepaired writer: the second dump's memory list still holds the first dump's blocks *)
Example reuse_leaks :
  let rq := {| rq_maps := []; rq_threads := [{| tb_stack := Some (0x7000, 0x1000); tb_crash_ip := None |}]; rq_app := [];
               rq_blamed_ctx := Some 100; rq_skip := false; rq_principal_addr := None |} in
  map (fun r => length (fst (fst r))) (dump_seq false fresh [rq; rq]) = [1%nat; 2%nat]
  /\ map (fun r => length (fst (fst r))) (dump_seq true fresh [rq; rq]) = [1%nat; 1%nat].
Proof. split; vm_compute; reflexivity. Qed.
