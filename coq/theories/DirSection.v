From Coq Require Import List NArith Arith Lia Bool.
From MDW Require Import Bytes.
Import ListNotations.
Open Scope nat_scope.

(* ---- destination: Cursor<Vec<u8>> semantics ---- *)
Record dest := { d_bytes : bytes; d_pos : nat }.

Definition pad (b : bytes) (n : nat) : bytes := b ++ repeat 0%N (n - length b).   (* zero-fill up to n *)
(* write_all: an empty slice makes no call at all (so no zero-fill of a gap either) *)
Definition dwrite (d : dest) (v : bytes) : dest :=
  match v with
  | [] => d
  | _ => {| d_bytes := update (pad (d_bytes d) (d_pos d)) (d_pos d) v; d_pos := d_pos d + length v |}
  end.
Definition dseek (d : dest) (p : nat) : dest := {| d_bytes := d_bytes d; d_pos := p |}.

(* ---- DirSection ---- *)
Record dirsec := { ds_idx : nat; ds_sec : nat; ds_n : nat; ds_start : nat; ds_last : nat }.

Definition ds_new (buf : bytes) (n : nat) (d : dest) : bytes * dirsec :=
  (buf ++ repeat 0%N (12 * n),
   {| ds_idx := 0; ds_sec := length buf; ds_n := n; ds_start := d_pos d; ds_last := 0 |}).

(* dump_dir_entry: patch the buffer slot, seek, write the 12 bytes, seek back *)
Definition dump_dir_entry (buf : bytes) (s : dirsec) (d : dest) (e : bytes) : bytes * dirsec * dest :=
  let off := ds_sec s + 12 * ds_idx s in
  let buf' := update buf off e in
  let cur := d_pos d in
  let d1 := dwrite (dseek d (ds_start s + off)) (slice buf' off 12) in
  (buf', {| ds_idx := S (ds_idx s); ds_sec := ds_sec s; ds_n := ds_n s; ds_start := ds_start s; ds_last := ds_last s |},
   dseek d1 cur).

Definition set_last (s : dirsec) (n : nat) : dirsec :=
  {| ds_idx := ds_idx s; ds_sec := ds_sec s; ds_n := ds_n s; ds_start := ds_start s; ds_last := n |}.
Definition flush (buf : bytes) (s : dirsec) (d : dest) : bytes * dirsec * dest :=
  (buf, set_last s (length buf), dwrite d (skipn (ds_last s) buf)).

(* write_to_file, with the order as a parameter: entry_first = true is the unchanged code *)
Definition write_to_file (entry_first : bool) (buf : bytes) (s : dirsec) (d : dest) (e : option bytes)
  : bytes * dirsec * dest :=
  match e with
  | None => flush buf s d
  | Some e =>
      if entry_first then
        let '(buf1, s1, d1) := dump_dir_entry buf s d e in flush buf1 s1 d1
      else
        let '(buf1, s1, d1) := flush buf s d in dump_dir_entry buf1 s1 d1 e
  end.

Inductive op := Grow (bs : bytes) | Flush (e : option bytes).

Definition run_op (entry_first : bool) (st : bytes * dirsec * dest) (o : op) : bytes * dirsec * dest :=
  let '(buf, s, d) := st in
  match o with
  | Grow bs => (buf ++ bs, s, d)
  | Flush e => write_to_file entry_first buf s d e
  end.
