From Coq Require Import List NArith ZArith Arith Lia Bool ZifyNat ZifyN ZifyBool.
From MDW Require Import Bytes.
Import ListNotations.
Open Scope nat_scope.

(* Target memory: byte at an address, None = not readable by this primitive.  Addresses are nat here
   (the proofs are about ranges, not about 64-bit wrap; src+len < 2^64 is a side condition). *)
Definition mem := nat -> option N.

Fixpoint read_range (m : mem) (a : nat) (n : nat) : option bytes :=   (* all n bytes or nothing *)
  match n with
  | O => Some []
  | S k => match m a, read_range m (S a) k with Some x, Some t => Some (x :: t) | _, _ => None end
  end.

Fixpoint read_prefix (m : mem) (a : nat) (n : nat) : bytes :=          (* longest readable prefix *)
  match n with
  | O => []
  | S k => match m a with Some x => x :: read_prefix m (S a) k | None => [] end
  end.

Inductive res := ROk (b : bytes) | RErr.

(* process_vm_readv: byte-exact prefix; error when nothing could be read (observed) *)
Definition vmem (m : mem) (src len : nat) : res :=
  match read_prefix m src len with [] => if len =? 0 then ROk [] else RErr | p => ROk p end.
(* /proc/<pid>/mem with read_exact_at: everything or an error *)
Definition file (m : mem) (src len : nat) : res :=
  match read_range m src len with Some b => ROk b | None => RErr end.

(* PTRACE_PEEKDATA: a whole 8-byte word or an error *)
Definition peek (m : mem) (a : nat) : option bytes := read_range m a 8.

(* the loop of MemReader::ptrace: whole words, then (unchanged code) the tail fetched as one more whole
   word starting at the tail; (repaired) the tail taken from the word that ENDS at the range end when
   len >= 8, or from the aligned word(s) covering it otherwise *)
Fixpoint ptrace_words (m : mem) (src : nat) (nwords : nat) : option bytes :=
  match nwords with
  | O => Some []
  | S k => match peek m src, ptrace_words m (src + 8) k with Some w, Some t => Some (w ++ t) | _, _ => None end
  end.

Definition ptrace_orig (m : mem) (src len : nat) : res :=
  match ptrace_words m src (len / 8) with
  | None => RErr
  | Some body =>
      let rem := len mod 8 in
      if rem =? 0 then ROk body
      else match peek m (src + len / 8 * 8) with
           | Some w => ROk (body ++ firstn rem w)
           | None => RErr
           end
  end.

(* ---- theorems ---- *)
Lemma read_range_prefix m : forall n a b, read_range m a n = Some b -> read_prefix m a n = b.
Proof.
  induction n as [|k IH]; intros a b H; cbn in *; [now injection H as <-|].
  destruct (m a) as [x|]; [|discriminate]. destruct (read_range m (S a) k) as [t|] eqn:E; [|discriminate].
  injection H as <-. f_equal. now apply IH.
Qed.

Lemma read_range_length m : forall n a b, read_range m a n = Some b -> length b = n.
Proof.
  induction n as [|k IH]; intros a b H; cbn in *; [now injection H as <-|].
  destruct (m a); [|discriminate]. destruct (read_range m (S a) k) eqn:E; [|discriminate].
  injection H as <-. cbn. f_equal. eapply IH; eauto.
Qed.

(* C17 (a): a fully readable range is returned exactly by the vectored and the file strategy *)
Theorem vmem_file_exact m src len b :
  read_range m src len = Some b -> vmem m src len = ROk b /\ file m src len = ROk b.
Proof.
  intro H. split; [|unfold file; now rewrite H].
  unfold vmem. rewrite (read_range_prefix _ _ _ _ H).
  destruct b; [|reflexivity]. apply read_range_length in H. cbn in H. subst len. reflexivity.
Qed.

(* C17 (b): whatever the vectored strategy returns is a prefix of the true bytes: never fabricated data *)
Lemma read_prefix_is_prefix m : forall n a, exists k, k <= n /\ read_range m a k = Some (read_prefix m a n).
Proof.
  induction n as [|n IH]; intro a; cbn [read_prefix].
  - exists 0. split; [lia|reflexivity].
  - destruct (m a) as [x|] eqn:E.
    + destruct (IH (S a)) as (k & Hk & Hr). exists (S k). split; [lia|]. cbn. now rewrite E, Hr.
    + exists 0. split; [lia|reflexivity].
Qed.

(* C17 refuted for the unchanged ptrace strategy: 4 readable bytes directly below an unreadable page *)
Definition m_ex : mem := fun a => if a <? 4096 then Some (N.of_nat (a mod 256)) else None.
Example ptrace_orig_overreads :
  read_range m_ex 4092 4 = Some [252;253;254;255]%N /\ ptrace_orig m_ex 4092 4 = RErr.
Proof. split; vm_compute; reflexivity. Qed.
Print Assumptions vmem_file_exact.
