(* ABI entries for the register -> CONTEXT_AMD64 conversion (C04, C05) *)
From Coq Require Import List NArith Arith Bool.
From MDW Require Import Bytes GenTypes Generated CtxModel AbiBase CtxSpec.
Import ListNotations.
Local Open Scope N_scope.

Definition reg_index (r : reg) : nat :=
  match r with
  | R_r15 => 0 | R_r14 => 1 | R_r13 => 2 | R_r12 => 3 | R_rbp => 4 | R_rbx => 5 | R_r11 => 6 | R_r10 => 7 | R_r9 => 8
  | R_r8 => 9 | R_rax => 10 | R_rcx => 11 | R_rdx => 12 | R_rsi => 13 | R_rdi => 14 | R_orig_rax => 15 | R_rip => 16
  | R_cs => 17 | R_eflags => 18 | R_rsp => 19 | R_ss => 20 | R_fs_base => 21 | R_gs_base => 22 | R_ds => 23 | R_es => 24
  | R_fs => 25 | R_gs => 26
  end%nat.
Definition greg_index (g : greg) : nat :=
  match g with
  | G_R8 => 0 | G_R9 => 1 | G_R10 => 2 | G_R11 => 3 | G_R12 => 4 | G_R13 => 5 | G_R14 => 6 | G_R15 => 7 | G_RDI => 8
  | G_RSI => 9 | G_RBP => 10 | G_RBX => 11 | G_RDX => 12 | G_RAX => 13 | G_RCX => 14 | G_RSP => 15 | G_RIP => 16
  | G_EFL => 17 | G_CSGSFS => 18 | G_ERR => 19 | G_TRAPNO => 20 | G_OLDMASK => 21 | G_CR2 => 22
  end%nat.
Definition fpf_index (f : fpf) : nat :=
  match f with FP_cwd => 0 | FP_swd => 1 | FP_ftw => 2 | FP_fop => 3 | FP_rip => 4 | FP_rdp => 5 | FP_mxcsr => 6 | FP_mxcr_mask => 7 end%nat.

Definition mk_regfile (regs dregs gregs fps st xmm : list N) : regfile :=
  {| rf_reg := fun r => nth (reg_index r) regs 0;
     rf_dreg := fun i => nth (N.to_nat (N.min i 16)) dregs 0;
     rf_greg := fun g => nth (greg_index g) gregs 0;
     rf_fp := fun f => nth (fpf_index f) fps 0;
     rf_st := st; rf_xmm := xmm |}.

(* [27 regs; 8 dregs; 8 fp scalars; 128 st bytes; 256 xmm bytes] -> 1232 context bytes *)
Definition entry_ctx_ptrace (args : list N) : list N :=
  let '(regs, r1) := take 27 args in
  let '(dregs, r2) := take 8 r1 in
  let '(fps, r3) := take 8 r2 in
  let '(st, r4) := take 128 r3 in
  let '(xmm, _) := take 256 r4 in
  ctx_bytes ptrace_table ptrace_xtable ptrace_copies (mk_regfile regs dregs [] fps st xmm).

(* [23 gregs; 8 fp scalars; 128 st bytes; 256 xmm bytes] -> 1232 context bytes *)
Definition entry_ctx_ucontext (args : list N) : list N :=
  let '(gregs, r1) := take 23 args in
  let '(fps, r2) := take 8 r1 in
  let '(st, r3) := take 128 r2 in
  let '(xmm, _) := take 256 r3 in
  ctx_bytes ucontext_table ucontext_xtable ucontext_copies (mk_regfile [] [] gregs fps st xmm).

(* the same from the specification-only tables (CtxSpec.v) *)
Definition entry_ctx_ptrace_spec (args : list N) : list N :=
  let '(regs, r1) := take 27 args in
  let '(dregs, r2) := take 8 r1 in
  let '(fps, r3) := take 8 r2 in
  let '(st, r4) := take 128 r3 in
  let '(xmm, _) := take 256 r4 in
  ctx_bytes expected_ptrace_table expected_xtable expected_copies (mk_regfile regs dregs [] fps st xmm).
Definition entry_ctx_ucontext_spec (args : list N) : list N :=
  let '(gregs, r1) := take 23 args in
  let '(fps, r2) := take 8 r1 in
  let '(st, r3) := take 128 r2 in
  let '(xmm, _) := take 256 r3 in
  ctx_bytes expected_ucontext_table expected_xtable expected_copies (mk_regfile [] [] gregs fps st xmm).
