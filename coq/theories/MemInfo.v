(* C18 model: memory-info list, CPU-information selection, auxv merge.  Definitions only; the proofs are in MemInfoProofs.v, so the model still builds and runs when a proof about a regenerated table breaks. *)
From Coq Require Import List NArith Arith Bool.
From MDW Require Import GenTypes Generated.
Import ListNotations.
Local Open Scope N_scope.

(* ---- memory-info list ---- *)
Definition prot_value (p : prot) : N :=
  match p with
  | P_PAGE_NOACCESS => 0x01 | P_PAGE_READONLY => 0x02 | P_PAGE_READWRITE => 0x04 | P_PAGE_WRITECOPY => 0x08
  | P_PAGE_EXECUTE => 0x10 | P_PAGE_EXECUTE_READ => 0x20 | P_PAGE_EXECUTE_READWRITE => 0x40 | P_PAGE_EXECUTE_WRITECOPY => 0x80
  end.
(* first matching row of the table regenerated from the source *)
Definition lookup_prot (r w x : bool) : option prot :=
  option_map (fun '(_, _, _, p) => p)
    (find (fun '(a, b, c, _) => Bool.eqb a r && Bool.eqb b w && Bool.eqb c x) protection_table).
(* the independent table: what each permission triple means *)
Definition expected_prot (r w x : bool) : prot :=
  match r, w, x with
  | false, false, false => P_PAGE_NOACCESS
  | false, false, true => P_PAGE_EXECUTE
  | true, false, false => P_PAGE_READONLY
  | true, false, true => P_PAGE_EXECUTE_READ
  | _, true, false => P_PAGE_READWRITE
  | _, true, true => P_PAGE_EXECUTE_READWRITE
  end.

Definition MEM_COMMIT : N := 0x1000. Definition MEM_PRIVATE : N := 0x20000. Definition MEM_MAPPED : N := 0x40000.
Record mi := { mi_base : N; mi_alloc_base : N; mi_alloc_prot : N; mi_size : N; mi_state : N; mi_prot : N; mi_type : N }.
(* perms: procfs-core bit flags READ=1 WRITE=2 EXECUTE=4 SHARED=8 PRIVATE=16 *)
Definition meminfo_of_line (s e perms : N) : mi :=
  let p := match lookup_prot (N.testbit perms 0) (N.testbit perms 1) (N.testbit perms 2) with Some p => prot_value p | None => 0 end in
  {| mi_base := s; mi_alloc_base := s; mi_alloc_prot := p; mi_size := e - s; mi_state := MEM_COMMIT; mi_prot := p;
     mi_type := if N.testbit perms 4 then MEM_PRIVATE else MEM_MAPPED |}.
Definition meminfo_list (ls : list (N * N * N)) : list mi := map (fun '(s, e, p) => meminfo_of_line s e p) ls.
(* the same list computed from the independent table only (no regenerated data): what the property demands.
   MemInfoProofs.meminfo_list_is_spec proves the two equal; the correspondence check runs both, so that when the
   regenerated table stops satisfying the theorem the spec side still yields a concrete failing mapping. *)
Definition meminfo_of_line_spec (s e perms : N) : mi :=
  let p := prot_value (expected_prot (N.testbit perms 0) (N.testbit perms 1) (N.testbit perms 2)) in
  {| mi_base := s; mi_alloc_base := s; mi_alloc_prot := p; mi_size := e - s; mi_state := MEM_COMMIT; mi_prot := p;
     mi_type := if N.testbit perms 4 then MEM_PRIVATE else MEM_MAPPED |}.
Definition meminfo_list_spec (ls : list (N * N * N)) : list mi := map (fun '(s, e, p) => meminfo_of_line_spec s e p) ls.

(* ---- CPU information: which /proc/cpuinfo lines decide the fields ---- *)
Inductive cpukey := K_processor | K_model | K_stepping | K_family | K_vendor | K_other.
(* a line: key, numeric value if it parses as i32 (non-negative here), raw value bytes *)
Record cpuline := { ck : cpukey; cnum : option N; craw : list N }.
Definition first_num (k : cpukey) (ls : list cpuline) : option N :=
  match find (fun l => match ck l, k with K_model, K_model | K_stepping, K_stepping | K_family, K_family => match cnum l with Some _ => true | None => false end | _, _ => false end) ls with
  | Some l => cnum l | None => None end.
Definition last_processor (ls : list cpuline) : option N :=
  fold_left (fun acc l => match ck l, cnum l with K_processor, Some v => Some v | _, _ => acc end) ls None.
Definition last_vendor (ls : list cpuline) : list N :=
  fold_left (fun acc l => match ck l, craw l with K_vendor, (_ :: _) as v => v | _, _ => acc end) ls [].
(* (number of processors, level, revision, first 12 vendor bytes) or None when an entry is missing *)
Definition cpu_select (ls : list cpuline) : option (N * N * N * list N) :=
  match last_processor ls, first_num K_model ls, first_num K_stepping ls, first_num K_family ls with
  | Some p, Some m, Some s, Some f => Some ((p + 1) mod 256, f mod 65536, (N.lor (N.shiftl m 8) s) mod 65536, firstn 12 (last_vendor ls))
  | _, _, _, _ => None
  end.

(* ---- auxv: caller-supplied (non-zero) values first, the kernel's otherwise ---- *)
Definition merge_auxv (direct : N) (kernel : option N) : option N := if direct =? 0 then kernel else Some direct.
