From Coq Require Import List NArith ZArith Arith Lia Bool.
From MDW Require Import Bytes Sanitize.
Import ListNotations.
Open Scope N_scope.
Ltac Zify.zify_post_hook ::= Z.div_mod_to_equations.

(* ---------- the range loop ---------- *)
Lemma range_sets_spec c : forall lo b,
  range_sets lo c b = true <-> exists k, lo <= k /\ k < lo + N.of_nat c /\ k mod NBITS = b.
Proof.
  induction c as [|c IH]; intros lo b; cbn [range_sets].
  - split; [discriminate|]. intros (k & H1 & H2 & _). lia.
  - rewrite orb_true_iff, N.eqb_eq, IH. split.
    + intros [H|(k & H1 & H2 & H3)].
      * exists lo. split; [lia|]. split; [lia|exact H].
      * exists k. split; [lia|]. split; [lia|exact H3].
    + intros (k & H1 & H2 & H3). destruct (N.eq_dec k lo) as [->|Hne].
      * now left.
      * right. exists k. split; [lia|]. split; [lia|exact H3].
Qed.

(* ---------- soundness of the pre-filter ---------- *)
Definition wf_map (m : mapping) : Prop :=
  mp_start m <= mp_sys_start m /\ mp_sys_end m <= mp_start m + mp_size m.

Lemma bitmap_sound ms m a :
  In m ms -> wf_map m -> mp_exec m = true -> contains m a = true ->
  bitmap_loop ms (bit_of a) = true.
Proof.
  intros Hin (Hlo & Hhi) Hx Hc. unfold bitmap_loop. apply existsb_exists. exists m. split; [exact Hin|].
  rewrite Hx. cbn [andb]. apply range_sets_spec.
  unfold contains in Hc. apply andb_prop in Hc. destruct Hc as (H1 & H2).
  apply N.leb_le in H1. apply N.ltb_lt in H2.
  exists (a / 2 ^ SHIFT). unfold bit_of.
  assert (Hp : 2 ^ SHIFT <> 0) by (apply N.pow_nonzero; discriminate).
  assert (L1 : mp_start m / 2 ^ SHIFT <= a / 2 ^ SHIFT) by (apply N.div_le_mono; [exact Hp|lia]).
  assert (L2 : a / 2 ^ SHIFT <= (mp_start m + mp_size m) / 2 ^ SHIFT) by (apply N.div_le_mono; [exact Hp|lia]).
  split; [exact L1|]. split; [|reflexivity].
  rewrite N2Nat.id. lia.
Qed.

(* ---------- refinement of the word loop ---------- *)
Definition agree_exec (ms : list mapping) : Prop :=
  forall m1 m2 a, In m1 ms -> In m2 ms -> contains m1 a = true -> contains m2 a = true -> mp_exec m1 = mp_exec m2.

Definition cache_ok (ms : list mapping) (last : option mapping) : Prop :=
  match last with None => True | Some h => In h ms /\ mp_exec h = true end.

Lemma exec_contains_iff ms w :
  existsb (fun m => mp_exec m && contains m w) ms = true <->
  exists m, In m ms /\ mp_exec m = true /\ contains m w = true.
Proof.
  rewrite existsb_exists. split; intros (m & Hin & H).
  - apply andb_prop in H. destruct H. eauto.
  - destruct H as (Hx & Hc). exists m. now rewrite Hx, Hc.
Qed.

Lemma classify_step_spec ms stack_map last w :
  Forall wf_map ms -> agree_exec ms -> cache_ok ms last ->
  let '(last', w') := classify_step small_fixed (bitmap_loop ms) ms stack_map last w in
  w' = classify_spec ms stack_map w /\ cache_ok ms last'.
Proof.
  intros Hwf Hag Hc. unfold classify_step, classify_spec, keep_spec.
  destruct (small_fixed w) eqn:Es; [cbn; auto|].
  cbn [orb].
  destruct (match stack_map with Some s => contains s w | None => false end) eqn:Est; [cbn; auto|].
  cbn [orb].
  destruct (existsb (fun m => mp_exec m && contains m w) ms) eqn:Eex.
  - (* some executable mapping contains w: the code must keep it *)
    apply exec_contains_iff in Eex. destruct Eex as (m & Hin & Hx & Hcm).
    destruct (match last with Some h => contains h w | None => false end) eqn:El; [auto|].
    rewrite (bitmap_sound ms m w Hin) by (try assumption; rewrite Forall_forall in Hwf; auto).
    unfold find_no_bias. destruct (find (fun m0 => contains m0 w) ms) as [h|] eqn:Ef.
    + apply find_some in Ef. destruct Ef as (Hinh & Hch).
      rewrite (Hag h m w Hinh Hin Hch Hcm), Hx. split; [reflexivity|]. cbn. split; [exact Hinh|].
      now rewrite (Hag h m w Hinh Hin Hch Hcm).
    + exfalso. eapply find_none in Ef; [|exact Hin]. cbn in Ef. congruence.
  - (* no executable mapping contains w: the code must deface it *)
    assert (Hno : forall h, In h ms -> mp_exec h = true -> contains h w = false).
    { intros h Hinh Hxh. destruct (contains h w) eqn:E; [|reflexivity].
      assert (existsb (fun m => mp_exec m && contains m w) ms = true)
        by (apply exec_contains_iff; eauto). congruence. }
    destruct last as [h|]; cbn in Hc.
    + destruct Hc as (Hinh & Hxh). rewrite (Hno h Hinh Hxh).
      destruct (bitmap_loop ms (bit_of w)); [|cbn; auto].
      unfold find_no_bias. destruct (find (fun m0 => contains m0 w) ms) as [g|] eqn:Ef; [|cbn; auto].
      apply find_some in Ef. destruct Ef as (Hing & Hcg).
      destruct (mp_exec g) eqn:Eg; [|cbn; auto]. rewrite (Hno g Hing Eg) in Hcg. discriminate.
    + destruct (bitmap_loop ms (bit_of w)); [|cbn; auto].
      unfold find_no_bias. destruct (find (fun m0 => contains m0 w) ms) as [g|] eqn:Ef; [|cbn; auto].
      apply find_some in Ef. destruct Ef as (Hing & Hcg).
      destruct (mp_exec g) eqn:Eg; [|cbn; auto]. rewrite (Hno g Hing Eg) in Hcg. discriminate.
Qed.

Lemma run_words_spec ms stack_map : forall ws last,
  Forall wf_map ms -> agree_exec ms -> cache_ok ms last ->
  run_words small_fixed (bitmap_loop ms) ms stack_map last ws = map (classify_spec ms stack_map) ws.
Proof.
  induction ws as [|w t IH]; intros last Hwf Hag Hc; cbn [run_words map]; [reflexivity|].
  pose proof (classify_step_spec ms stack_map last w Hwf Hag Hc) as H.
  destruct (classify_step small_fixed (bitmap_loop ms) ms stack_map last w) as (last', w').
  destruct H as (-> & Hc'). f_equal. now apply IH.
Qed.

(* C12, refinement half: the optimised sanitiser equals the plain specification *)
Theorem sanitize_refines ms stack sp sp_off :
  Forall wf_map ms -> agree_exec ms ->
  sanitize_fixed ms stack sp sp_off = Ok (sanitize_spec ms stack sp sp_off).
Proof.
  intros Hwf Hag. unfold sanitize_fixed, sanitize_gen, sanitize_spec.
  rewrite andb_false_r.
  destruct (words _ _) as (ws, tl).
  rewrite run_words_spec by (auto; exact I). reflexivity.
Qed.
Print Assumptions sanitize_refines.

(* the unchanged code: refutations by computation *)
Example sanitize_orig_defaces_minus_one :
  sanitize_orig [] (le 8 (W - 1)) 16 0 = Ok (le 8 DEFACED) /\ sanitize_spec [] (le 8 (W - 1)) 16 0 = le 8 (W - 1).
Proof. split; vm_compute; reflexivity. Qed.
Example sanitize_orig_panics_short : sanitize_orig [] [0;0;0;0;0;0;0;0] 16 9 = Panic.
Proof. vm_compute; reflexivity. Qed.
