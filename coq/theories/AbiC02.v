(* ABI entries for C02 *)
From Coq Require Import List NArith Arith Bool.
From MDW Require Import SoVersion Sanitize AbiBase.
Import ListNotations.
Local Open Scope N_scope.

(* [scalars of a file name...] -> [2] panic | [1] no version | [0; major; minor; patch; prerelease] *)
Definition entry_sov (args : list N) : list N :=
  match parse true args with
  | SoVersion.Panic => [2]
  | SoVersion.Ok None => [1]
  | SoVersion.Ok (Some v) => [0; major v; minor v; patch v; prerelease v]
  end.
