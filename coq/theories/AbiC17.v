(* ABI entry for C17 *)
From Coq Require Import List NArith Arith Bool.
From MDW Require Import Bytes MemReader MemReaderFix AbiBase.
Import ListNotations.
Local Open Scope N_scope.

(* the target fills its regions with an address-derived pattern *)
Definition pattern (a : N) : N := (((a * 2654435761) mod 2 ^ 64) / 128) mod 256.
(* memory seen from the start of the requested range: [avail] readable bytes, then unreadable *)
Definition range_mem (base : N) (avail : nat) : mem :=
  fun rel => if (rel <? avail)%nat then Some (pattern (base + N.of_nat rel)) else None.

(* [strategy; region start; region length; offset of the range in the region; range length] -> [0; bytes] | [1]
   (the strategies are translation invariant, so the range is placed at address 0 of a shifted memory) *)
Definition entry_c17 (args : list N) : list N :=
  match args with
  | st :: start :: rlen :: off :: len :: _ =>
      let len' := N.min len 10000000 in
      let avail := N.to_nat (N.min (rlen - off) (len' + 16)) in
      let m := range_mem (start + off) avail in
      let n := N.to_nat len' in
      match (if st =? 0 then vmem m 0 n else if st =? 1 then file m 0 n else ptrace_fixed m 0 n) with
      | ROk b => 0 :: b
      | RErr => [1]
      end
  | _ => []
  end.
