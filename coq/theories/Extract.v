(* Extraction of the executable model (definitions only; independent of every proof file). *)
From MDW Require Import AbiAll.
Require Extraction.
Require Import ExtrOcamlBasic.
Extraction "../ocaml/gen/model.ml" entry_c16 entry_c13 entry_c13_judge entry_c09 entry_c10_consistent entry_c12 entry_c20 entry_c20_included entry_c06 entry_c06_shorten entry_c14 entry_c14_soname entry_c14p entry_c14p_soname entry_const entry_ctx_ptrace entry_ctx_ucontext entry_ctx_ptrace_spec entry_ctx_ucontext_spec entry_c15 entry_tl_listed entry_tl_region entry_tl_memlist entry_tl_exception entry_c11_tree entry_c03_final entry_c17 entry_c18_dso entry_c18_dso_auxv entry_c18_meminfo entry_c18_meminfo_spec entry_c18_cpu entry_c08 entry_sov entry_c01_sound entry_image.
