(* Extraction of the executable model (definitions only; independent of every proof file). *)
From MDW Require Import AbiC16.
Require Extraction.
Require Import ExtrOcamlBasic.
Extraction "../ocaml/gen/model.ml" entry_c16.
