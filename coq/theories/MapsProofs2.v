From Coq Require Import List NArith ZArith Arith Lia Bool ZifyNat ZifyN ZifyBool.
From MDW Require Import Maps.
Import ListNotations.
Open Scope N_scope.

Ltac split_andb :=
  repeat match goal with
  | H : _ && _ = true |- _ => apply andb_prop in H; destruct H
  | H : (_ =? _) = true |- _ => apply N.eqb_eq in H
  end.

Definition renamed (gate : option N) (l : line) : bool :=
  match gate with Some g => negb (is_path (l_name l)) && (l_start l =? g) | None => false end.
Definition eff_name (gate : option N) (l : line) : name := if renamed gate l then gate_name else l_name l.
Definition eff_off (gate : option N) (l : line) : N := if renamed gate l then 0 else l_off l.
Definition l_exec (l : line) : bool := N.testbit (l_perms l) 2.
Definition noaccess (l : line) : bool := l_perms l =? P_PRIVATE.

(* a run = first line + segments; a segment is one joined line, or (empty page, same-name line) *)
Inductive seg := S1 (l : line) | S2 (e l : line).
Definition seg_lines (s : seg) : list line := match s with S1 l => [l] | S2 e l => [e; l] end.
Definition run_lines (f : line) (segs : list seg) : list line := f :: flat_map seg_lines segs.

(* why a segment was allowed to join a run named [nm] whose earlier lines are [pre] *)
Definition seg_ok (gate : option N) (nm : name) (pre : list line) (s : seg) : Prop :=
  match s with
  | S1 l => (eff_name gate l = nm /\ nm <> None)                                         (* same name *)
            \/ (noaccess l = true /\ is_path nm = true /\ exists a, In a pre /\ l_exec a = true)  (* gap after executable *)
  | S2 e l => noaccess e = true /\ eff_name gate e = None /\ eff_off gate e = 0 /\         (* gap between two parts *)
              is_path nm = true /\ eff_name gate l = nm
  end.
Fixpoint segs_ok (gate : option N) (nm : name) (pre : list line) (segs : list seg) : Prop :=
  match segs with
  | [] => True
  | s :: t => seg_ok gate nm pre s /\ segs_ok gate nm (pre ++ seg_lines s) t
  end.

Record RunOf3 (gate : option N) (m : minfo) (f : line) (segs : list seg) : Prop := {
  r_name : m_name m = eff_name gate f;
  r_start : m_start m = l_start f;
  r_segs : segs_ok gate (m_name m) [f] segs;
  r_exec : m_exec m = true -> exists a, In a (run_lines f segs) /\ l_exec a = true;
  r_single : segs = [] -> m_perms m = l_perms f /\ m_off m = eff_off gate f;
}.

Inductive Rel3 (gate : option N) : list minfo -> list (line * list seg) -> Prop :=
| Rel3_nil : Rel3 gate [] []
| Rel3_cons m f segs acc runs : RunOf3 gate m f segs -> Rel3 gate acc runs -> Rel3 gate (m :: acc) ((f, segs) :: runs).

Definition all_lines (runs : list (line * list seg)) : list line :=
  concat (map (fun '(f, segs) => run_lines f segs) (rev runs)).

Lemma segs_ok_snoc gate nm : forall segs pre s,
  segs_ok gate nm pre segs -> seg_ok gate nm (pre ++ flat_map seg_lines segs) s -> segs_ok gate nm pre (segs ++ [s]).
Proof.
  induction segs as [|x t IH]; intros pre s Hs Hn; cbn [segs_ok app flat_map] in *.
  - rewrite app_nil_r in Hn. auto.
  - destruct Hs as (Hx & Ht). split; [exact Hx|]. apply IH; [exact Ht|]. now rewrite <- app_assoc.
Qed.

Lemma lor_exec a b : N.testbit (N.lor a b) 2 = N.testbit a 2 || N.testbit b 2.
Proof. apply N.lor_spec. Qed.
Lemma name_eqb_eq a b : name_eqb a b = true -> a = b.
Proof.
  unfold name_eqb. destruct a, b; try discriminate; [|reflexivity].
  destruct (list_eq_dec N.eq_dec l l0); [now subst|discriminate].
Qed.
Lemma run_lines_snoc f segs s : run_lines f (segs ++ [s]) = run_lines f segs ++ seg_lines s.
Proof. unfold run_lines. rewrite flat_map_app. cbn [flat_map]. now rewrite app_nil_r. Qed.

Lemma all_lines_cons f segs runs : all_lines ((f, segs) :: runs) = all_lines runs ++ run_lines f segs.
Proof. unfold all_lines. cbn [rev]. rewrite map_app, concat_app. cbn. now rewrite app_nil_r. Qed.

Lemma step_rel3 gate acc runs l :
  Rel3 gate acc runs ->
  exists runs', Rel3 gate (step gate acc l) runs' /\ all_lines runs' = all_lines runs ++ [l].
Proof.
  intro HR.
  assert (Push : exists runs', Rel3 gate ({| m_start := l_start l; m_size := l_end l - l_start l; m_sys_start := l_start l;
                          m_sys_end := l_end l; m_off := eff_off gate l; m_perms := l_perms l; m_name := eff_name gate l |} :: acc) runs' /\
                   all_lines runs' = all_lines runs ++ [l]).
  { exists ((l, []) :: runs). split.
    - constructor; [|exact HR]. constructor; cbn; auto. intro Hx. exists l. split; [now left|exact Hx].
    - now rewrite all_lines_cons. }
  unfold step. fold (renamed gate l).
  change (if renamed gate l then gate_name else l_name l) with (eff_name gate l).
  change (if renamed gate l then 0 else l_off l) with (eff_off gate l).
  set (nm := eff_name gate l). set (off := eff_off gate l).
  destruct acc as [|prev rest]; [exact Push|].
  inversion HR as [|m f segs acc' runs0 HRun HRest]; subst.
  destruct HRun as [Hname Hstart Hsegs Hexec Hsingle].
  (* rule 1: same name *)
  destruct ((l_start l =? m_end prev) && match nm with Some _ => true | None => false end
            && name_eqb nm (m_name prev)) eqn:E1.
  { split_andb. match goal with H : name_eqb nm _ = true |- _ => apply name_eqb_eq in H; rename H into Hn end.
    exists ((f, segs ++ [S1 l]) :: runs0). split.
    - constructor; [|exact HRest]. constructor; cbn [m_name m_start m_perms m_off]; auto.
      + apply segs_ok_snoc; [exact Hsegs|]. left. split; [exact Hn|]. rewrite <- Hn. destruct nm; discriminate.
      + unfold m_exec; cbn [m_perms]. rewrite lor_exec. intro Hx. apply orb_prop in Hx. rewrite run_lines_snoc.
        destruct Hx as [Hx|Hx].
        * destruct (Hexec Hx) as (a & Ha & Hxa). exists a. split; [apply in_or_app; now left|exact Hxa].
        * exists l. split; [apply in_or_app; right; now left|exact Hx].
      + intro Hc. destruct segs; discriminate.
    - rewrite !all_lines_cons, run_lines_snoc. now rewrite app_assoc. }
  (* rule 2: reserved gap after an executable path mapping *)
  destruct ((l_start l =? m_end prev) && m_exec prev && is_path (m_name prev)
            && ((off =? 0) || (off =? m_end prev)) && (l_perms l =? P_PRIVATE)) eqn:E2.
  { split_andb. exists ((f, segs ++ [S1 l]) :: runs0). split.
    - constructor; [|exact HRest]. constructor; cbn [m_name m_start m_perms m_off]; auto.
      + apply segs_ok_snoc; [exact Hsegs|]. right. split; [unfold noaccess; now apply N.eqb_eq|]. split; [assumption|].
        destruct Hexec as (a & Ha & Hxa); [assumption|]. exists a. split; [exact Ha|exact Hxa].
      + unfold m_exec; cbn [m_perms]. intro Hx. destruct Hexec as (a & Ha & Hxa); [exact Hx|].
        exists a. split; [|exact Hxa]. rewrite run_lines_snoc. apply in_or_app. now left.
      + intro Hc. destruct segs; discriminate.
    - rewrite !all_lines_cons, run_lines_snoc. now rewrite app_assoc. }
  (* rule 3 (fold) or push *)
  destruct rest as [|pp rest']; [exact Push|].
  destruct (is_path (m_name pp) && (m_end pp =? m_start prev) && m_empty_page prev
            && (m_end prev =? l_start l) && name_eqb nm (m_name pp)) eqn:E3; [|exact Push].
  split_andb. match goal with H : name_eqb nm _ = true |- _ => apply name_eqb_eq in H; rename H into Hn end.
  inversion HRest as [|m2 g gsegs acc2 runs2 HRun2 HRest2]; subst.
  destruct HRun2 as [Hname2 Hstart2 Hsegs2 Hexec2 Hsingle2].
  match goal with H : m_empty_page prev = true |- _ => unfold m_empty_page in H; split_andb; rename H into Hoff0 end.
  destruct (m_name prev) eqn:Enp; [discriminate|].
  (* the empty page's run is the single line f *)
  assert (Hs0 : segs = []).
  { destruct segs as [|s t]; [reflexivity|]. exfalso. cbn [segs_ok] in Hsegs. destruct Hsegs as (Hs & _).
    destruct s as [x|e x]; cbn [seg_ok] in Hs.
    - destruct Hs as [(_ & Hne)|(_ & Hp & _)]; [congruence|discriminate].
    - destruct Hs as (_ & _ & _ & Hp & _). discriminate. }
  subst segs. destruct (Hsingle eq_refl) as (Hperms & Hoffs).
  exists ((g, gsegs ++ [S2 f l]) :: runs2). split.
  - constructor; [|exact HRest2]. constructor; cbn [m_name m_start m_perms m_off]; auto.
    + apply segs_ok_snoc; [exact Hsegs2|]. cbn [seg_ok]. repeat split.
      * unfold noaccess. rewrite <- Hperms. now apply N.eqb_eq.
      * now rewrite <- Hname.
      * now rewrite <- Hoffs.
      * assumption.
      * exact Hn.
    + unfold m_exec; cbn [m_perms]. rewrite lor_exec. intro Hx. apply orb_prop in Hx. rewrite run_lines_snoc. cbn [seg_lines].
      destruct Hx as [Hx|Hx].
      * destruct (Hexec2 Hx) as (a & Ha & Hxa). exists a. split; [apply in_or_app; now left|exact Hxa].
      * exists l. split; [apply in_or_app; right; right; now left|exact Hx].
    + intro Hc. destruct gsegs; discriminate.
  - rewrite !all_lines_cons, run_lines_snoc. cbn [seg_lines run_lines flat_map]. rewrite <- !app_assoc. reflexivity.
Qed.

Lemma fold_rel3 gate ls : forall acc runs,
  Rel3 gate acc runs -> exists runs', Rel3 gate (fold_left (step gate) ls acc) runs' /\ all_lines runs' = all_lines runs ++ ls.
Proof.
  induction ls as [|l t IH]; intros acc runs HR; cbn [fold_left].
  - exists runs. split; [exact HR|now rewrite app_nil_r].
  - destruct (step_rel3 gate acc runs l HR) as (r1 & HR1 & H1). destruct (IH _ _ HR1) as (r2 & HR2 & H2).
    exists r2. split; [exact HR2|]. now rewrite H2, H1, <- app_assoc.
Qed.

(* C13, naming and merge-reason half: every derived mapping is named after its first line (with the
   linux-gate renaming), and every further line of its run joined for one of the three stated reasons *)
Theorem aggregate_reasons gate ls :
  exists runs, all_lines runs = ls /\
    Forall2 (fun m '(f, segs) => RunOf3 gate m f segs) (aggregate gate ls) (rev runs).
Proof.
  destruct (fold_rel3 gate ls [] [] (Rel3_nil gate)) as (runs & HR & Hl). exists runs. split; [exact Hl|].
  unfold aggregate. clear Hl. induction HR; cbn [rev]; [constructor|].
  apply Forall2_app; [exact IHHR|]. constructor; [assumption|constructor].
Qed.

(* the gate clause: a derived mapping that starts at the gate address and whose first line is not a
   path is named linux-gate.so *)
Corollary gate_named gate g m f segs :
  gate = Some g -> RunOf3 gate m f segs -> m_start m = g -> is_path (l_name f) = false -> m_name m = gate_name.
Proof.
  intros -> [Hn Hs _ _ _] Hg Hp. rewrite Hn. unfold eff_name, renamed. rewrite Hp, <- Hs, Hg, N.eqb_refl. reflexivity.
Qed.
Print Assumptions aggregate_reasons.
Print Assumptions gate_named.
