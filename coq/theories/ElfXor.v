(* C14: the text-hash fallback.  [xor16] (the reader's chunked loop: 16-byte blocks, the last one zero-padded)
   equals the bytewise definition of the fold: byte number i of the data is XOR-ed into cell i mod 16. *)
From Coq Require Import List NArith ZArith Arith Lia Bool ZifyNat ZifyN ZifyBool.
From MDW Require Import Bytes Elf.
Import ListNotations.
Local Open Scope nat_scope.
Ltac Zify.zify_post_hook ::= Z.div_mod_to_equations.

(* what cell [p] holds after folding the bytes [d], the first of which has index [i] *)
Fixpoint cell (p : nat) (d : bytes) (i : nat) : N :=
  match d with
  | [] => 0%N
  | x :: t => N.lxor (if i mod 16 =? p then x else 0%N) (cell p t (S i))
  end.
Definition xor_spec (d : bytes) : bytes := map (fun p => cell p d 0) (seq 0 16).

(* the loop as a top-level function *)
Definition map2x (a c : bytes) : bytes := map (fun '(x, y) => N.lxor x y) (combine a c).
Fixpoint go (acc d : bytes) (fuel : nat) : bytes :=
  match fuel with
  | O => acc
  | S f => match d with
           | [] => acc
           | _ => go (map2x acc (firstn 16 d ++ repeat 0%N (16 - length (firstn 16 d)))) (skipn 16 d) f
           end
  end.
Lemma xor16_go d : xor16 d = go (repeat 0%N 16) d (S (length d)).
Proof. reflexivity. Qed.

Lemma map2x_length a c : length a = 16 -> length c = 16 -> length (map2x a c) = 16.
Proof. intros Ha Hc. unfold map2x. rewrite map_length, combine_length. lia. Qed.
Lemma map2x_nth a c p : length a = length c -> nth p (map2x a c) 0%N = N.lxor (nth p a 0%N) (nth p c 0%N).
Proof.
  intro H. unfold map2x.
  change 0%N with ((fun '(x, y) => N.lxor x y) (0%N, 0%N)) at 1. rewrite map_nth.
  now rewrite combine_nth by exact H.
Qed.
Lemma pad_length (d : bytes) : length (firstn 16 d ++ repeat 0%N (16 - length (firstn 16 d))) = 16.
Proof. rewrite app_length, repeat_length, firstn_length. lia. Qed.
Lemma pad_nth (d : bytes) p : nth p (firstn 16 d ++ repeat 0%N (16 - length (firstn 16 d))) 0%N = if p <? 16 then nth p d 0%N else 0%N.
Proof.
  destruct (p <? 16) eqn:E.
  - apply Nat.ltb_lt in E. destruct (Nat.lt_ge_cases p (length (firstn 16 d))) as [L|L].
    + rewrite app_nth1 by exact L. rewrite <- (firstn_skipn 16 d) at 2. now rewrite app_nth1 by exact L.
    + rewrite app_nth2 by exact L. rewrite nth_repeat.
      rewrite firstn_length in L. symmetry. apply nth_overflow. lia.
  - apply Nat.ltb_ge in E. apply nth_overflow. rewrite pad_length. exact E.
Qed.

(* splitting the bytewise fold at any point *)
Lemma cell_split p n : forall d i, cell p d i = N.lxor (cell p (firstn n d) i) (cell p (skipn n d) (i + n)).
Proof.
  induction n as [|n IH]; intros d i.
  - cbn [firstn skipn cell]. now rewrite N.lxor_0_l, Nat.add_0_r.
  - destruct d as [|x t]; [reflexivity|]. cbn [firstn skipn cell]. rewrite (IH t (S i)).
    rewrite N.lxor_assoc. do 3 f_equal. lia.
Qed.
(* a block of at most 16 bytes starting at a multiple of 16 contributes its p-th byte *)
Lemma cell_block p k : forall c j, j + length c <= 16 ->
  cell p c (16 * k + j) = if j <=? p then nth (p - j) c 0%N else 0%N.
Proof.
  induction c as [|x t IH]; intros j H; cbn [cell].
  - destruct (j <=? p); [now destruct (p - j)|reflexivity].
  - cbn [length] in H. replace (S (16 * k + j)) with (16 * k + S j) by lia. rewrite IH by lia.
    destruct ((16 * k + j) mod 16 =? p) eqn:E1.
    + apply Nat.eqb_eq in E1. assert (j = p) by lia. subst j.
      rewrite Nat.leb_refl, Nat.sub_diag. cbn [nth].
      destruct (S p <=? p) eqn:E2; [apply Nat.leb_le in E2; lia|]. apply N.lxor_0_r.
    + apply Nat.eqb_neq in E1. assert (j <> p) by lia. rewrite N.lxor_0_l.
      destruct (S j <=? p) eqn:E2.
      * apply Nat.leb_le in E2. destruct (j <=? p) eqn:E3; [|apply Nat.leb_gt in E3; lia].
        replace (p - j) with (S (p - S j)) by lia. reflexivity.
      * apply Nat.leb_gt in E2. destruct (j <=? p) eqn:E3; [apply Nat.leb_le in E3; lia|reflexivity].
Qed.

Lemma go_length : forall fuel acc d, length acc = 16 -> length (go acc d fuel) = 16.
Proof.
  induction fuel as [|f IH]; intros acc d H; cbn [go]; [exact H|].
  destruct d as [|x t]; [exact H|]. apply IH. apply map2x_length; [exact H|apply pad_length].
Qed.

Lemma go_cell p : p < 16 -> forall fuel acc d k, length acc = 16 -> length d < fuel ->
  nth p (go acc d fuel) 0%N = N.lxor (nth p acc 0%N) (cell p d (16 * k)).
Proof.
  intro Hp. induction fuel as [|f IH]; intros acc d k Ha Hf; [lia|]. cbn [go].
  destruct d as [|x t] eqn:Ed; [cbn [cell]; now rewrite N.lxor_0_r|]. rewrite <- Ed in *.
  assert (Hd : d <> []) by (rewrite Ed; discriminate). clear Ed x t.
  rewrite (IH _ _ (S k)).
  - rewrite map2x_nth by (rewrite pad_length; exact Ha). rewrite pad_nth.
    destruct (p <? 16) eqn:E; [|apply Nat.ltb_ge in E; lia].
    rewrite (cell_split p 16 d (16 * k)). rewrite <- N.lxor_assoc. f_equal; [|f_equal; lia].
    f_equal. pose proof (cell_block p k (firstn 16 d) 0) as B. rewrite Nat.add_0_r in B.
    rewrite B by (rewrite firstn_length; lia). cbn [Nat.leb]. rewrite Nat.sub_0_r.
    destruct (Nat.lt_ge_cases p (length (firstn 16 d))) as [L|L].
    + rewrite <- (firstn_skipn 16 d) at 1. now rewrite app_nth1 by exact L.
    + rewrite (nth_overflow (firstn 16 d)) by exact L. apply nth_overflow. rewrite firstn_length in L. lia.
  - apply map2x_length; [exact Ha|apply pad_length].
  - rewrite skipn_length. destruct d; [contradiction|]. cbn [length] in *. lia.
Qed.

Theorem xor16_is_spec d : xor16 d = xor_spec d.
Proof.
  rewrite xor16_go. apply (nth_ext _ _ 0%N 0%N).
  - rewrite go_length by apply repeat_length. unfold xor_spec. now rewrite map_length, seq_length.
  - intros p Hp. rewrite go_length in Hp by apply repeat_length.
    rewrite (go_cell p Hp _ _ _ 0) by (try apply repeat_length; lia).
    rewrite nth_repeat, N.lxor_0_l. unfold xor_spec.
    rewrite (nth_indep _ 0%N (cell 0 d 0)) by (rewrite map_length, seq_length; exact Hp).
    set (f := fun q => cell q d 0). change (cell 0 d 0) with (f 0). rewrite map_nth, seq_nth by exact Hp. reflexivity.
Qed.

Theorem xor16_length d : length (xor16 d) = 16.
Proof. rewrite xor16_go. apply go_length, repeat_length. Qed.

Example xor_spec_example : xor_spec (map N.of_nat (seq 1 20)) = xor16 (map N.of_nat (seq 1 20)) /\ nth 0 (xor_spec (map N.of_nat (seq 1 20))) 0%N = N.lxor 1 17.
Proof. split; vm_compute; reflexivity. Qed.

Print Assumptions xor16_is_spec.
