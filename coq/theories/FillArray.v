From Coq Require Import List NArith Arith Lia Bool.
From MDW Require Import Bytes MemWriter.
Import ListNotations.
Open Scope nat_scope.

(* The recurring writer pattern:
     header; array of n slots (zeroed); for each item: append its blobs, then set_value_at(slot, entry)
   [emit x pos] = (blobs appended for x when the buffer has length pos, entry bytes for its slot). *)
Section Fill.
  Variable X : Type.
  Variable esz : nat.
  Variable emit : X -> nat -> bytes * bytes.
  Hypothesis emit_size : forall x p, length (snd (emit x p)) = esz.

  (* the loop as the code runs it: state = (buffer, next slot index) *)
  Fixpoint fill_loop (base : nat) (items : list X) (buf : bytes) (idx : nat) : outcome bytes :=
    match items with
    | [] => Ok buf
    | x :: t =>
        let '(blobs, entry) := emit x (length buf) in
        match write_at (buf ++ blobs) (base + esz * idx) entry with
        | Ok buf' => fill_loop base t buf' (S idx)
        | Err => Err | Panic => Panic
        end
    end.

  (* closed form: positions at which each item is emitted, its blobs and its entry *)
  Fixpoint emitted (items : list X) (pos : nat) : list (bytes * bytes) :=
    match items with
    | [] => []
    | x :: t => let be := emit x pos in be :: emitted t (pos + length (fst be))
    end.

  Fixpoint fill_slots (buf : bytes) (base idx : nat) (entries : list bytes) : bytes :=
    match entries with
    | [] => buf
    | e :: t => fill_slots (update buf (base + esz * idx) e) base (S idx) t
    end.

  Lemma fill_slots_length entries : forall buf base idx,
    Forall (fun e => length e = esz) entries ->
    base + esz * (idx + length entries) <= length buf ->
    length (fill_slots buf base idx entries) = length buf.
  Proof.
    induction entries as [|e t IH]; intros buf base idx Hf Hb; cbn [fill_slots]; [reflexivity|].
    inversion Hf as [|? ? He Ht]; subst. cbn [length] in Hb.
    rewrite IH; [apply update_length; nia|exact Ht|rewrite update_length by nia; nia].
  Qed.

  Lemma fill_slots_app entries : forall buf base idx tail,
    Forall (fun e => length e = esz) entries ->
    base + esz * (idx + length entries) <= length buf ->
    fill_slots (buf ++ tail) base idx entries = fill_slots buf base idx entries ++ tail.
  Proof.
    induction entries as [|e t IH]; intros buf base idx tail Hf Hb; cbn [fill_slots]; [reflexivity|].
    inversion Hf as [|? ? He Ht]; subst. cbn [length] in Hb.
    rewrite update_app_in by nia.
    apply IH; [exact Ht|rewrite update_length by nia; nia].
  Qed.

  Lemma emitted_sizes l : forall p, Forall (fun e => length e = esz) (map snd (emitted l p)).
  Proof. induction l as [|y l IH]; intro p; cbn [emitted map]; constructor; [apply emit_size|apply IH]. Qed.
  Lemma emitted_length l : forall p, length (emitted l p) = length l.
  Proof. induction l as [|y l IH]; intro p; cbn [emitted length]; [reflexivity|now rewrite IH]. Qed.

  (* the loop equals: all blobs appended in order, all slots filled *)
  Theorem fill_loop_closed items : forall base buf idx,
    base + esz * (idx + length items) <= length buf ->
    let em := emitted items (length buf) in
    fill_loop base items buf idx =
      Ok (fill_slots buf base idx (map snd em) ++ concat (map fst em)).
  Proof.
    induction items as [|x t IH]; intros base buf idx Hb; cbn [fill_loop emitted map concat fill_slots].
    - now rewrite app_nil_r.
    - cbn [length] in Hb. destruct (emit x (length buf)) as (blobs, entry) eqn:E.
      assert (He : length entry = esz) by (pose proof (emit_size x (length buf)) as H; now rewrite E in H).
      rewrite write_at_inside by (rewrite app_length; nia).
      cbn [fst snd].
      assert (Hup : update (buf ++ blobs) (base + esz * idx) entry = update buf (base + esz * idx) entry ++ blobs)
        by (apply update_app_in; nia).
      rewrite Hup. rewrite IH by (rewrite app_length, update_length by nia; nia).
      rewrite app_length, update_length by nia. f_equal.
      rewrite fill_slots_app.
      + symmetry; apply app_assoc.
      + apply emitted_sizes.
      + rewrite map_length. rewrite update_length by nia.
        rewrite emitted_length. nia.
  Qed.
End Fill.
Print Assumptions fill_loop_closed.
