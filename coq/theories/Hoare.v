From Coq Require Import List NArith ZArith Arith Lia Bool ZifyNat ZifyN ZifyBool.
From MDW Require Import Bytes MemWriter Writer.
Import ListNotations.
Open Scope nat_scope.

(* Hoare triples for the writer monad, relative to the format's 32-bit RVA width:
   the postcondition is owed only for runs whose final image is < 2^32 bytes; buffers only grow. *)
Definition LIM : N := (2 ^ 32)%N.   (* kept in N: a unary 2^32 would never finish *)
Definition small (n : nat) : Prop := (N.of_nat n < LIM)%N.
Definition blen (s : wst) : nat := length (w_buf s).

Definition mono {A} (m : W A) : Prop := forall s a s', m s = Ok (a, s') -> blen s <= blen s'.
Definition triple {A} (P : wst -> Prop) (m : W A) (Q : A -> wst -> Prop) : Prop :=
  mono m /\ forall s a s', P s -> m s = Ok (a, s') -> small (blen s') -> Q a s'.

Lemma triple_ret {A} (a : A) (P : wst -> Prop) : triple P (ret a) (fun x s => x = a /\ P s).
Proof. split; [intros s x s' E; injection E as <- <-; lia|]. intros s x s' HP E _. injection E as <- <-. auto. Qed.

Lemma triple_bind {A B} (m : W A) (f : A -> W B) P Q R :
  triple P m Q -> (forall a, triple (Q a) (f a) R) -> triple P (bind m f) R.
Proof.
  intros (Mm & Hm) Hf. split.
  - intros s b s' E. unfold bind in E. destruct (m s) as [[a s1]| |] eqn:Em; try discriminate.
    destruct (Hf a) as (Mf & _). specialize (Mm _ _ _ Em). specialize (Mf _ _ _ E). lia.
  - intros s b s' HP E Hl. unfold bind in E. destruct (m s) as [[a s1]| |] eqn:Em; try discriminate.
    destruct (Hf a) as (Mf & Hfa). pose proof (Mf _ _ _ E) as Hmono.
    apply (Hfa s1 b s'); [|exact E|exact Hl]. apply (Hm s a s1 HP Em). unfold small in *. lia.
Qed.

Lemma triple_weaken {A} (m : W A) (P P' : wst -> Prop) (Q Q' : A -> wst -> Prop) :
  (forall s, P' s -> P s) -> (forall a s, Q a s -> Q' a s) -> triple P m Q -> triple P' m Q'.
Proof. intros HP HQ (M & H). split; [exact M|]. intros s a s' Hp E Hl. apply HQ. eapply H; eauto. Qed.

(* ---- primitives ---- *)
Lemma u32_small n : small n -> N.to_nat (u32 n) = n.
Proof. intro H. unfold u32, small, LIM in *. rewrite N.mod_small by exact H. apply Nat2N.id. Qed.

(* allocate an object and record a reference to it: invariants kept, the location is exact *)
Lemma triple_alloc k v (P : wst -> Prop) :
  triple (fun s => Inv s /\ P s) (w_alloc k v)
         (fun l s' => Inv s' /\ N.to_nat (l_rva l) + length v = blen s' /\ l_size l = N.of_nat (length v) /\
                      (exists s, P s /\ w_buf s' = w_buf s ++ v /\ w_refs s' = w_refs s /\
                                 w_objs s' = {| o_kind := k; o_rva := blen s; o_len := length v |} :: w_objs s /\
                                 l_rva l = u32 (blen s))).
Proof.
  split; [intros s l s' E; injection E as <- <-; unfold blen; cbn; rewrite app_length; lia|].
  intros s l s' (HI & HP) E Hl. pose proof (preserves_alloc k v s l s' HI E) as (HI' & _).
  injection E as <- <-. unfold blen in *. cbn [w_buf w_objs w_refs l_rva l_size] in *. rewrite app_length in *.
  split; [exact HI'|]. split; [|split; [reflexivity|]].
  - rewrite u32_small; [reflexivity|]. unfold small in *. lia.
  - exists s. repeat split; auto.
Qed.

Lemma triple_ref_new k l (P : wst -> Prop) :
  triple (fun s => Inv s /\ P s /\ exists o, In o (w_objs s) /\ o_kind o = k /\ u32 (o_rva o) = l_rva l /\ N.of_nat (o_len o) = l_size l)
         (w_ref k l) (fun _ s' => Inv s' /\ exists s, P s /\ w_buf s' = w_buf s /\ w_objs s' = w_objs s).
Proof.
  split; [intros s a s' E; injection E as <- <-; unfold blen; cbn; lia|].
  intros s a s' (HI & HP & Ho) E _.
  destruct (preserves_ref_to k l s (or_intror Ho) a s' HI E) as (HI' & Hobjs).
  injection E as <- <-. split; [exact HI'|]. exists s. auto.
Qed.

Lemma triple_patch off v (P : wst -> Prop) :
  triple (fun s => Inv s /\ P s /\ off + length v <= blen s) (w_patch off v)
         (fun _ s' => Inv s' /\ exists s, P s /\ blen s' = blen s /\ w_objs s' = w_objs s /\ w_refs s' = w_refs s /\
                                       w_buf s' = update (w_buf s) off v).
Proof.
  split.
  - intros s a s' E. unfold w_patch in E. destruct (write_at (w_buf s) off v) as [b| |] eqn:W; try discriminate.
    injection E as <- <-. unfold blen; cbn. unfold write_at in W.
    destruct (length (w_buf s) <? off) eqn:E1; [discriminate|]. apply Nat.ltb_ge in E1. injection W as <-.
    destruct (length (w_buf s) - off <? length v) eqn:E2.
    + apply Nat.ltb_lt in E2. unfold update. rewrite !app_length, firstn_length, skipn_length, !app_length, !repeat_length. lia.
    + apply Nat.ltb_ge in E2. rewrite update_length; lia.
  - intros s a s' (HI & HP & Hin) E _.
    destruct (preserves_patch off v s Hin a s' HI E) as (HI' & Ho & Hl).
    split; [exact HI'|]. exists s. unfold w_patch in E. rewrite write_at_inside in E by exact Hin.
    injection E as <- <-. unfold blen. cbn [w_buf w_objs w_refs]. split; [exact HP|]. split; [apply update_length; exact Hin|]. repeat split.
Qed.
Print Assumptions triple_bind.
