(* C10 lifted to operation sequences of any length (data-first order). *)
From Coq Require Import List NArith ZArith Arith Lia Bool ZifyNat ZifyN ZifyBool.
From MDW Require Import Bytes DirSection DirSectionProofs DirSeqProofs Prefix DirTrace TraceProofs MemOpsProofs.
Import ListNotations.
Local Open Scope nat_scope.

(* what holds between two operations *)
Record Good (pre : bytes) (st : bytes * dirsec * dest) : Prop := {
  g_inv : let '(buf, s, d) := st in Inv pre [] buf s d;
  g_dir : let '(buf, s, d) := st in ds_sec s + 12 * ds_n s <= ds_last s;
  g_cons : let '(buf, s, d) := st in consistent (firstn (ds_last s) buf) (ds_sec s) (ds_n s);
  g_entries : let '(buf, s, d) := st in forall i, i < ds_n s -> entry_ok (slice buf (ds_sec s + 12 * i) 12) (length buf);
}.

(* the operations a writer issues: entries are 12 bytes, at most [k] more, and each names data inside the
   image as built at that moment *)
Fixpoint valid (len k : nat) (ops : list dop) : Prop :=
  match ops with
  | [] => True
  | DGrow bs :: t => valid (len + length bs) k t
  | DFlush None :: t => valid len k t
  | DFlush (Some e) :: t => length e = 12 /\ 0 < k /\ entry_ok e len /\ valid len (k - 1) t
  end.

Lemma entry_ok_mono e l1 l2 : l1 <= l2 -> entry_ok e l1 -> entry_ok e l2.
Proof. intros H [Hz|Hx]; [now left|right; lia]. Qed.

Lemma slice_app_l (a b : bytes) o n : o + n <= length a -> slice (a ++ b) o n = slice a o n.
Proof.
  intro H. unfold slice. rewrite skipn_app. replace (o - length a) with 0 by lia. cbn [skipn].
  rewrite firstn_app, skipn_length. replace (n - (length a - o)) with 0 by lia. cbn [firstn]. now rewrite app_nil_r.
Qed.

Lemma consistent_of_entries buf sec n :
  sec + 12 * n <= length buf -> (forall i, i < n -> entry_ok (slice buf (sec + 12 * i) 12) (length buf)) -> consistent buf sec n.
Proof. intros H1 H2. split; assumption. Qed.

Lemma firstn_app_le (a b : bytes) k : k <= length a -> firstn k (a ++ b) = firstn k a.
Proof. intro H. rewrite firstn_app. replace (k - length a) with 0 by lia. cbn [firstn]. now rewrite app_nil_r. Qed.

Lemma drun_cons ef st o ops :
  drun ef st (o :: ops) = (fst (drun ef (fst (dstep ef st o)) ops), snd (dstep ef st o) ++ snd (drun ef (fst (dstep ef st o)) ops)).
Proof. cbn [drun]. destruct (dstep ef st o) as (st1, sn1). cbn [fst snd]. destruct (drun ef st1 ops) as (st2, sn2). reflexivity. Qed.

Theorem sequence_prefixes pre : forall ops buf s d,
  Good pre (buf, s, d) -> valid (length buf) (ds_n s - ds_idx s) ops ->
  Good pre (fst (drun false (buf, s, d) ops)) /\
  Forall (fun d' => consistent (region pre d') (ds_sec s) (ds_n s)) (snd (drun false (buf, s, d) ops)).
Proof.
  induction ops as [|o ops IH]; intros buf s d [HI Hdir Hcons Hent] Hv.
  - cbn [drun fst snd]. split; [constructor; assumption|constructor].
  - rewrite drun_cons. cbn [fst snd]. destruct o as [bs|e].
    + (* growth: nothing reaches the destination *)
      cbn [valid] in Hv. cbn [dstep fst snd app].
      assert (HG : Good pre (buf ++ bs, s, d)).
      { constructor.
        - now apply grow_inv.
        - exact Hdir.
        - destruct HI as [Hl _ _ _]. rewrite firstn_app_le by exact Hl. exact Hcons.
        - intros i Hi. destruct HI as [Hl _ _ _]. rewrite slice_app_l by nia.
          eapply entry_ok_mono; [|apply Hent; exact Hi]. rewrite app_length. lia. }
      apply IH; [exact HG|]. rewrite app_length. exact Hv.
    + pose proof (wtf_calls_sound false buf s d e) as Hsound.
      unfold dstep. destruct (wtf_calls false buf s (d_pos d) e) as ((buf1, s1), cs) eqn:Ew. cbn [fst snd].
      pose proof (wtf_fields false buf s d e) as Hfl. rewrite Hsound in Hfl. destruct Hfl as (Hsec & Hn & Hst & Hidx).
      assert (Hbuf_ge : ds_sec s + 12 * ds_n s <= length buf) by (destruct HI as [Hl _ _ _]; lia).
      destruct e as [x|].
      * (* flush with an entry *)
        cbn [valid] in Hv. destruct Hv as (Hx & Hk & Hok & Hv).
        assert (Hidxn : ds_idx s < ds_n s) by lia.
        pose proof (data_first_all_prefixes pre buf s d x HI Hx Hidxn Hcons Hent Hdir Hok) as Hsn.
        assert (Ec : cs = snd (wtf_calls false buf s (d_pos d) (Some x))) by (rewrite Ew; reflexivity).
        unfold wtf_calls in Hsn, Ec. cbv beta iota zeta in Hsn. cbn [snd] in Ec. rewrite <- Ec in Hsn.
        pose proof (write_to_file_inv false pre [] buf s d (Some x) HI) as Hwi. rewrite Hsound in Hwi.
        destruct Hwi as (HI1 & Hl1 & _).
        { intros y Hy. injection Hy as <-. split; [exact Hx|]. nia. }
        assert (Eb : buf1 = update buf (ds_sec s + 12 * ds_idx s) x) by (unfold wtf_calls in Ew; injection Ew as <- _ _; reflexivity).
        assert (Hlen1 : length buf1 = length buf) by (rewrite Eb; apply update_length; nia).
        assert (Hent1 : forall i, i < ds_n s1 -> entry_ok (slice buf1 (ds_sec s1 + 12 * i) 12) (length buf1)).
        { rewrite Hn, Hsec, Hlen1. intros i Hi. rewrite Eb. destruct (Nat.eq_dec i (ds_idx s)) as [->|Hne].
          - pose proof (slice_update_same buf (ds_sec s + 12 * ds_idx s) x) as E. rewrite Hx in E. rewrite E by nia. exact Hok.
          - destruct (Nat.lt_ge_cases i (ds_idx s)).
            + rewrite slice_update_before by nia. now apply Hent.
            + rewrite slice_update_after by nia. now apply Hent. }
        assert (HG : Good pre (buf1, s1, run_calls d cs)).
        { constructor.
          - exact HI1.
          - rewrite Hsec, Hn, Hl1, Hlen1. exact Hbuf_ge.
          - rewrite Hl1, firstn_all. apply consistent_of_entries; [rewrite Hsec, Hn, Hlen1; exact Hbuf_ge|exact Hent1].
          - exact Hent1. }
        assert (Hv1 : valid (length buf1) (ds_n s1 - ds_idx s1) ops).
        { rewrite Hlen1, Hn, Hidx. replace (ds_n s - S (ds_idx s)) with (ds_n s - ds_idx s - 1) by lia. exact Hv. }
        destruct (IH _ _ _ HG Hv1) as (IH1 & IH2). split; [exact IH1|]. apply Forall_app. split; [exact Hsn|].
        rewrite Hsec, Hn in IH2. exact IH2.
      * (* flush without entry *)
        cbn [valid] in Hv.
        pose proof (flush_prefix pre buf s d HI Hent Hbuf_ge) as Hsn.
        assert (Ec : cs = snd (wtf_calls false buf s (d_pos d) (@None bytes))) by (rewrite Ew; reflexivity).
        unfold wtf_calls in Hsn, Ec. cbv beta iota zeta in Hsn. cbn [snd] in Ec. rewrite <- Ec in Hsn.
        pose proof (write_to_file_inv false pre [] buf s d (@None bytes) HI) as Hwi. rewrite Hsound in Hwi.
        destruct Hwi as (HI1 & Hl1 & _); [intros y Hy; discriminate|].
        assert (Eb : buf1 = buf) by (unfold wtf_calls in Ew; injection Ew as <- _ _; reflexivity). subst buf1.
        assert (HG : Good pre (buf, s1, run_calls d cs)).
        { constructor.
          - exact HI1.
          - rewrite Hsec, Hn, Hl1. exact Hbuf_ge.
          - rewrite Hl1, firstn_all, Hsec, Hn. apply consistent_of_entries; assumption.
          - rewrite Hsec, Hn. exact Hent. }
        assert (Hv1 : valid (length buf) (ds_n s1 - ds_idx s1) ops) by (rewrite Hn, Hidx; exact Hv).
        destruct (IH _ _ _ HG Hv1) as (IH1 & IH2). split; [exact IH1|]. apply Forall_app. split.
        -- eapply Forall_impl; [|exact Hsn]. intros d' (_ & Hc). exact Hc.
        -- rewrite Hsec, Hn in IH2. exact IH2.
Qed.

(* the whole protocol: reserve a zeroed directory of n entries after the header bytes [buf0], flush, then any
   valid sequence - the destination being empty beyond its starting position *)
Lemma firstn_repeat_le' {A} (x : A) : forall n m, n <= m -> firstn n (repeat x m) = repeat x n.
Proof. induction n as [|n IH]; intros m H; [reflexivity|]. destruct m as [|m]; [lia|]. cbn [repeat firstn]. f_equal. apply IH. lia. Qed.

Lemma slice_repeat_zero (a : bytes) n i : i < n ->
  slice (a ++ repeat 0%N (12 * n)) (length a + 12 * i) 12 = repeat 0%N 12.
Proof.
  intro H. unfold slice. rewrite skipn_app. rewrite (skipn_all2 a) by lia. cbn [app].
  replace (length a + 12 * i - length a) with (12 * i) by lia.
  rewrite skipn_repeat. rewrite firstn_repeat_le' by lia. reflexivity.
Qed.

Theorem protocol_prefixes pre buf0 n ops :
  valid (length buf0 + 12 * n) n ops ->
  let d0 := {| d_bytes := pre; d_pos := length pre |} in
  let r := drun false (dstart buf0 n d0) (DFlush None :: ops) in
  Forall (fun d' => consistent (region pre d') (length buf0) n) (snd r).
Proof.
  intros Hv d0 r. unfold r, dstart, ds_new. cbv beta iota zeta.
  set (b1 := buf0 ++ repeat 0%N (12 * n)).
  set (s0 := {| ds_idx := 0; ds_sec := length buf0; ds_n := n; ds_start := d_pos d0; ds_last := 0 |}).
  assert (Hlen : length b1 = length buf0 + 12 * n) by (unfold b1; rewrite app_length, repeat_length; reflexivity).
  assert (HI0 : Inv pre [] b1 s0 d0).
  { constructor; cbn; try lia; try reflexivity. now rewrite app_nil_r. }
  assert (Hent0 : forall i, i < n -> entry_ok (slice b1 (length buf0 + 12 * i) 12) (length b1)).
  { intros i Hi. left. unfold b1. now apply slice_repeat_zero. }
  rewrite drun_cons. cbn [fst snd]. apply Forall_app.
  (* the header + directory flush *)
  pose proof (flush_prefix pre b1 s0 d0 HI0 Hent0) as Hf. cbn [ds_sec ds_n s0] in Hf. specialize (Hf ltac:(lia)).
  pose proof (wtf_calls_sound false b1 s0 d0 (@None bytes)) as Hsound.
  unfold dstep. destruct (wtf_calls false b1 s0 (d_pos d0) (@None bytes)) as ((bufa, sa), cs) eqn:Ew. cbn [fst snd].
  assert (Ec : (bufa, sa, cs) = wtf_calls false b1 s0 (d_pos d0) (@None bytes)) by (now rewrite Ew).
  unfold wtf_calls in Ec, Hf. cbv beta iota zeta in Hf. injection Ec as -> -> ->.
  split.
  - eapply Forall_impl; [|exact Hf]. intros d' (_ & Hc). exact Hc.
  - pose proof (write_to_file_inv false pre [] b1 s0 d0 (@None bytes) HI0) as Hwi. rewrite Hsound in Hwi.
    destruct Hwi as (HI1 & Hl1 & _); [intros y Hy; discriminate|].
    assert (HG : Good pre (b1, set_last s0 (length b1), run_calls d0 [CWrite (skipn (ds_last s0) b1)])).
    { constructor.
      - exact HI1.
      - cbn [set_last ds_sec ds_n ds_last s0]. lia.
      - cbn [set_last ds_sec ds_n ds_last s0]. rewrite firstn_all. apply consistent_of_entries; [lia|exact Hent0].
      - cbn [set_last ds_sec ds_n s0]. exact Hent0. }
    destruct (sequence_prefixes pre ops _ _ _ HG) as (_ & H2).
    + cbn [set_last ds_n ds_idx s0]. rewrite Hlen, Nat.sub_0_r. exact Hv.
    + cbn [set_last ds_sec ds_n s0] in H2. exact H2.
Qed.
