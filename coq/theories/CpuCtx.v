From Coq Require Import List NArith ZArith Arith Lia Bool ZifyNat ZifyN ZifyBool.
From MDW Require Import Bytes.
Import ListNotations.
Open Scope nat_scope.
Ltac Zify.zify_post_hook ::= Z.to_euclidean_division_equations.

(* A context is built from an assignment table: (destination offset, width in bytes, value).
   The value is already evaluated from the source register file; narrowing `as u16/u32`
   is the truncation done by [le width]. *)
Definition assign := (nat * nat * N)%type.

Definition build (size : nat) (tbl : list assign) : bytes :=
  fold_left (fun b '(off, w, v) => update b off (le w v)) tbl (repeat 0%N size).

Definition read (b : bytes) (off w : nat) : N := unle (slice b off w).

Definition in_range (size : nat) (a : assign) : Prop := let '(off, w, _) := a in off + w <= size.
Definition disjoint (a b : assign) : Prop :=
  let '(o1, w1, _) := a in let '(o2, w2, _) := b in o1 + w1 <= o2 \/ o2 + w2 <= o1.

Fixpoint pairwise_disjoint (tbl : list assign) : Prop :=
  match tbl with
  | [] => True
  | a :: t => Forall (disjoint a) t /\ pairwise_disjoint t
  end.

Lemma fold_update_length tbl : forall b,
  Forall (fun a => let '(off, w, _) := a in off + w <= length b) tbl ->
  length (fold_left (fun b '(off, w, v) => update b off (le w v)) tbl b) = length b.
Proof.
  induction tbl as [|[[off w] v] t IH]; intros b Hf; cbn [fold_left]; [reflexivity|].
  inversion Hf as [|? ? Ha Ht]; subst.
  rewrite IH; [apply update_length; rewrite le_length; lia|].
  rewrite update_length by (rewrite le_length; lia). exact Ht.
Qed.

(* later, disjoint assignments do not disturb a field already written *)
Lemma fold_update_preserves tbl : forall b off w,
  off + w <= length b ->
  Forall (fun a => let '(o, x, _) := a in o + x <= length b) tbl ->
  Forall (disjoint (off, w, 0%N)) tbl ->
  slice (fold_left (fun b '(off, w, v) => update b off (le w v)) tbl b) off w = slice b off w.
Proof.
  induction tbl as [|[[o x] v] t IH]; intros b off w Hin Hr Hd; cbn [fold_left]; [reflexivity|].
  inversion Hr as [|? ? Ha Ht]; subst. inversion Hd as [|? ? Hda Hdt]; subst.
  rewrite IH.
  - cbn in Hda. destruct Hda as [H|H].
    + apply slice_update_before; lia.
    + apply slice_update_after; rewrite le_length; lia.
  - rewrite update_length by (rewrite le_length; lia). exact Hin.
  - rewrite update_length by (rewrite le_length; lia). exact Ht.
  - exact Hdt.
Qed.

Lemma disjoint_sym_val a o w v v' : disjoint a (o, w, v) -> disjoint (o, w, v') a.
Proof. destruct a as [[o1 w1] v1]. cbn. lia. Qed.

(* every assignment of a well-formed table can be read back, truncated to its width *)
Theorem build_read size tbl :
  Forall (in_range size) tbl -> pairwise_disjoint tbl ->
  forall off w v, In (off, w, v) tbl -> read (build size tbl) off w = (v mod 256 ^ N.of_nat w)%N.
Proof.
  unfold build. generalize (repeat 0%N size) as b0. intros b0 Hr Hd.
  assert (Hlen0 : True) by exact I.
  revert b0. revert Hr Hd.
  assert (G : forall tbl b, length b = size -> Forall (in_range size) tbl -> pairwise_disjoint tbl ->
              forall off w v, In (off, w, v) tbl ->
              read (fold_left (fun b '(off, w, v) => update b off (le w v)) tbl b) off w = (v mod 256 ^ N.of_nat w)%N).
  { induction tbl0 as [|[[o x] u] t IH]; intros b Hb Hr Hd off w v Hin; [destruct Hin|].
    inversion Hr as [|? ? Ha Ht]; subst. cbn in Ha. destruct Hd as (Hda & Hdt).
    cbn [fold_left]. destruct Hin as [E|Hin].
    - injection E as -> -> ->. unfold read.
      rewrite fold_update_preserves.
      + rewrite <- (le_length w v) at 2. rewrite slice_update_same by (rewrite le_length; lia). apply unle_le.
      + rewrite update_length by (rewrite le_length; lia). lia.
      + rewrite update_length by (rewrite le_length; lia). eapply Forall_impl; [|exact Ht].
        intros [[o x] u]; cbn; lia.
      + eapply Forall_impl; [|exact Hda]. intros [[o x] u]; cbn; lia.
    - apply IH; try assumption. rewrite update_length by (rewrite le_length; lia). reflexivity. }
  intros Hr Hd b0. (* b0 is arbitrary here; instantiate with the zero block *)
  intros off w v Hin. 
Abort.

Theorem build_read size tbl :
  Forall (in_range size) tbl -> pairwise_disjoint tbl ->
  forall off w v, In (off, w, v) tbl -> read (build size tbl) off w = (v mod 256 ^ N.of_nat w)%N.
Proof.
  intros Hr0 Hd0 off0 w0 v0 Hin0. unfold build.
  assert (G : forall tbl b, length b = size -> Forall (in_range size) tbl -> pairwise_disjoint tbl ->
              forall off w v, In (off, w, v) tbl ->
              read (fold_left (fun b '(off, w, v) => update b off (le w v)) tbl b) off w = (v mod 256 ^ N.of_nat w)%N).
  { clear. induction tbl as [|[[o x] u] t IH]; intros b Hb Hr Hd off w v Hin; [destruct Hin|].
    inversion Hr as [|? ? Ha Ht]; subst. cbn in Ha. destruct Hd as (Hda & Hdt).
    cbn [fold_left]. destruct Hin as [E|Hin].
    - injection E as -> -> ->. unfold read.
      rewrite fold_update_preserves.
      + rewrite <- (le_length w v) at 2. rewrite slice_update_same by (rewrite le_length; lia). apply unle_le.
      + rewrite update_length by (rewrite le_length; lia). lia.
      + rewrite update_length by (rewrite le_length; lia). eapply Forall_impl; [|exact Ht].
        intros [[o x] u]; cbn; lia.
      + eapply Forall_impl; [|exact Hda]. intros [[o x] u]; cbn; lia.
    - apply IH; try assumption. rewrite update_length by (rewrite le_length; lia). reflexivity. }
  apply G; try assumption. apply repeat_length.
Qed.
Print Assumptions build_read.
