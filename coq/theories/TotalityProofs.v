(* C02: totality facts of the components that are not stated elsewhere. *)
From Coq Require Import List NArith Arith Bool.
From MDW Require Import Bytes Sanitize MemWriter ThreadNames DsoDebug DsoStream.
Import ListNotations.

Lemma sanitize_exec_total ms stack sp off : sanitize_exec ms stack sp off <> Sanitize.Panic.
Proof.
  unfold sanitize_exec, sanitize_gen. rewrite Bool.andb_false_r.
  destruct (words _ _) as (ws, tl). discriminate.
Qed.

(* the linker-stream writer has only three outcomes - a stream, an error, or 'outside the modelled
   fragment' (non-ASCII object names) - for every memory content and every AT_PHDR / AT_PHNUM value *)
Lemma dso_stream_total m phdr phnum :
  (exists o, dso_stream m phdr phnum = DOk o) \/ dso_stream m phdr phnum = DErr \/ dso_stream m phdr phnum = DUnspec.
Proof. destruct (dso_stream m phdr phnum); eauto. Qed.
