From Coq Require Import List NArith Arith Lia Bool.
Import ListNotations.
Open Scope nat_scope.

(* ---- what the dumper does, as events on the target ---- *)
Inductive ev :=
| SigStop                      (* kill(pid, SIGSTOP) *)
| SigCont                      (* kill(pid, SIGCONT) *)
| Attach (t : nat)             (* PTRACE_ATTACH succeeded and the SIGSTOP stop was seen *)
| Reinject (t : nat) (s : nat) (* PTRACE_CONT(t, s) for a non-SIGSTOP signal seen while attaching *)
| Detach (t : nat)
| ReadRegs (t : nat)
| ReadMem.

(* per-thread facts of the world that decide how an attach attempt goes *)
Inductive attach_kind :=
| AOk                (* attach + wait succeed, rsp <> 0 *)
| AFail              (* PTRACE_ATTACH fails (thread gone / traced by someone else) *)
| AWaitErr           (* waitpid error: the code detaches and reports *)
| ASkip.             (* rsp = 0 or registers unreadable: detached and skipped *)

Record thr := { t_id : nat; t_kind : attach_kind; t_sigs : list nat (* signals seen before the SIGSTOP *) }.

(* suspend_thread: events, and whether the thread stays in the list *)
Definition suspend_thread (t : thr) : list ev * bool :=
  let reinj := map (Reinject (t_id t)) (t_sigs t) in
  match t_kind t with
  | AOk => (reinj ++ [Attach (t_id t)], true)
  | AFail => ([], false)
  | AWaitErr => (reinj ++ [Attach (t_id t); Detach (t_id t)], false)
  | ASkip => (reinj ++ [Attach (t_id t); ReadRegs (t_id t); Detach (t_id t)], false)
  end.

Fixpoint suspend_threads (ts : list thr) : list ev * list thr :=
  match ts with
  | [] => ([], [])
  | t :: r => let '(e1, keep) := suspend_thread t in
              let '(e2, kept) := suspend_threads r in
              (e1 ++ e2, if keep then t :: kept else kept)
  end.

Definition resume_threads (suspended : bool) (kept : list thr) : list ev :=
  if suspended then map (fun t => Detach (t_id t)) kept else [].

(* where the dump stops: the lifecycle of MinidumpWriter::dump + Drop *)
Inductive stop_at :=
| InitFails                     (* error inside init, after the SIGSTOP was sent *)
| AfterSuspend (reads : nat)    (* a hard error / panic / I/O failure after `reads` memory reads *)
| Completes (reads : nat).      (* generate_dump reaches resume_threads and returns *)

Definition work (kept : list thr) (reads : nat) : list ev :=
  map (fun t => ReadRegs (t_id t)) kept ++ repeat ReadMem reads.

Definition run (ts : list thr) (s : stop_at) : list ev :=
  match s with
  | InitFails => [SigStop] ++ (* Drop: *) resume_threads false [] ++ [SigCont]
  | AfterSuspend reads =>
      let '(e, kept) := suspend_threads ts in
      [SigStop] ++ e ++ work kept reads ++ (* Drop: *) resume_threads true kept ++ [SigCont]
  | Completes reads =>
      let '(e, kept) := suspend_threads ts in
      [SigStop] ++ e ++ work kept reads ++ resume_threads true kept
        ++ (* Drop: threads_suspended is false now *) resume_threads false kept ++ [SigCont]
  end.

(* ---- abstract kernel: which threads are traced, whether the group is stopped, signals re-delivered ---- *)
Record kst := { traced : nat -> bool; gstop : bool; delivered : list (nat * nat) }.
Definition upd (f : nat -> bool) (t : nat) (b : bool) : nat -> bool := fun x => if Nat.eqb x t then b else f x.
Definition kstep (k : kst) (e : ev) : kst :=
  match e with
  | SigStop => {| traced := traced k; gstop := true; delivered := delivered k |}
  | SigCont => {| traced := traced k; gstop := false; delivered := delivered k |}
  | Attach t => {| traced := upd (traced k) t true; gstop := gstop k; delivered := delivered k |}
  | Detach t => {| traced := upd (traced k) t false; gstop := gstop k; delivered := delivered k |}
  | Reinject t s => {| traced := traced k; gstop := gstop k; delivered := (t, s) :: delivered k |}
  | ReadRegs _ | ReadMem => k
  end.
Definition k0 : kst := {| traced := fun _ => false; gstop := false; delivered := [] |}.
Definition final (es : list ev) : kst := fold_left kstep es k0.
