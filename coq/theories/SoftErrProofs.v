From Coq Require Import List NArith Arith Bool Lia.
From MDW Require Import SoftErr.
Import ListNotations.
Local Open Scope N_scope.

Lemma attach_errors_nil ts : attach_errors ts = [] <-> Forall (fun a => a = AOk) ts.
Proof.
  induction ts as [|a t IH]; cbn [attach_errors flat_map]; [split; constructor|].
  destruct a; cbn [app]; split; intro H; try discriminate.
  - constructor; [reflexivity|now apply IH].
  - inversion H; subst. now apply IH.
  - inversion H as [|? ? Ha _]. discriminate.
  - inversion H as [|? ? Ha _]. discriminate.
Qed.

Lemma retained_all ts : Forall (fun a => a = AOk) ts -> retained ts = length ts.
Proof. unfold retained. induction 1 as [|a t Ha _ IH]; [reflexivity|]. subst a. cbn [filter length]. now rewrite IH. Qed.

(* the stream is the empty list exactly when nothing failed *)
Theorem tree_empty_when_no_failure f : no_failure f -> expected_tree f = [].
Proof.
  intros (H1 & H2 & H3 & H4 & H5 & H6 & H7 & H8 & H9 & H10). unfold expected_tree.
  rewrite H1, H2, H4, H5, H8, H9, H10. cbn [when app].
  assert (E1 : when (f_name f) (opt_node T_EnumerateThreadsErrors (map (fun _ => leaf T_ReadThreadNameFailed) (f_threads f))) = []).
  { destruct H3 as [->| ->]; [reflexivity|]. destruct (f_name f); reflexivity. }
  rewrite E1. cbn [opt_node app].
  apply attach_errors_nil in H6 as E2. rewrite E2. cbn [app opt_node].
  rewrite retained_all by assumption. destruct (f_threads f); [congruence|]. reflexivity.
Qed.

Lemma in_opt_node t cs x : cs <> [] -> In x (opt_node t cs) <-> x = Node t cs.
Proof. destruct cs; [congruence|]. cbn. intuition. Qed.

Lemma path_child pre t cs c p : In c cs -> In p (paths (pre ++ [t]) c) -> In p (paths pre (Node t cs)).
Proof. intros Hc Hp. cbn [paths]. right. apply in_flat_map. exists c. split; assumption. Qed.
Lemma path_self pre t cs : In (pre ++ [t]) (paths pre (Node t cs)).
Proof. cbn [paths]. now left. Qed.
Lemma forest_in ts t p : In t ts -> In p (paths [] t) -> In p (forest_paths ts).
Proof. intros Ht Hp. unfold forest_paths. apply in_flat_map. exists t. split; assumption. Qed.
Lemma in_opt_node' t cs : cs <> [] -> In (Node t cs) (opt_node t cs).
Proof. destruct cs; [congruence|]. intros _. now left. Qed.

Ltac in_tree := unfold expected_tree; rewrite !in_app_iff; tauto.

(* every failure that occurred is listed, under the step it belongs to *)
Theorem stop_reported f : f_stop f = true -> In [T_InitErrors; T_StopProcessFailed] (forest_paths (expected_tree f)).
Proof.
  intro H.
  set (cs := when (f_stop f) [leaf T_StopProcessFailed]
     ++ when (f_auxv f) [Node T_FillMissingAuxvInfoErrors [leaf T_InvalidFormat]]
     ++ when (f_name f) (opt_node T_EnumerateThreadsErrors (map (fun _ => leaf T_ReadThreadNameFailed) (f_threads f)))).
  assert (Hin : In (leaf T_StopProcessFailed) cs) by (unfold cs; rewrite H; now left).
  apply (forest_in _ (Node T_InitErrors cs)).
  - assert (In (Node T_InitErrors cs) (opt_node T_InitErrors cs)) by (apply in_opt_node'; intro E; rewrite E in Hin; destruct Hin).
    fold cs. unfold expected_tree. fold cs. rewrite !in_app_iff. tauto.
  - apply (path_child [] T_InitErrors cs (leaf T_StopProcessFailed)); [exact Hin|]. apply (path_self [T_InitErrors]).
Qed.
Theorem cpu_reported f : f_cpu f = true ->
  In [T_WriteSystemInfoErrors; T_WriteCpuInformationFailed] (forest_paths (expected_tree f)).
Proof.
  intro H. apply (forest_in _ (Node T_WriteSystemInfoErrors [leaf T_WriteCpuInformationFailed])).
  - unfold expected_tree. rewrite H. cbn [when]. rewrite !in_app_iff. cbn [In]. tauto.
  - apply (path_child [] _ _ (leaf T_WriteCpuInformationFailed)); [now left|]. apply (path_self [T_WriteSystemInfoErrors]).
Qed.
Lemma suspend_child_reported f tg : In (leaf tg) (attach_errors (f_threads f)) ->
  In [T_SuspendThreadsErrors; tg] (forest_paths (expected_tree f)).
Proof.
  intro Hin. set (cs := attach_errors (f_threads f) ++ when (f_suspend f) [leaf T_PtraceAttachError]).
  assert (Hc : In (leaf tg) cs) by (unfold cs; apply in_or_app; now left).
  apply (forest_in _ (Node T_SuspendThreadsErrors cs)).
  - assert (In (Node T_SuspendThreadsErrors cs) (opt_node T_SuspendThreadsErrors cs)) by (apply in_opt_node'; intro E; rewrite E in Hc; destruct Hc).
    unfold expected_tree. fold cs. rewrite !in_app_iff. tauto.
  - apply (path_child [] _ cs (leaf tg)); [exact Hc|]. apply (path_self [T_SuspendThreadsErrors]).
Qed.
Theorem skipped_thread_reported f : In ASkip (f_threads f) ->
  In [T_SuspendThreadsErrors; T_DetachSkippedThread] (forest_paths (expected_tree f)).
Proof. intro H. apply suspend_child_reported. unfold attach_errors. apply in_flat_map. exists ASkip. split; [exact H|now left]. Qed.
Theorem vanished_thread_reported f : In AGone (f_threads f) ->
  In [T_SuspendThreadsErrors; T_PtraceAttachError] (forest_paths (expected_tree f)).
Proof. intro H. apply suspend_child_reported. unfold attach_errors. apply in_flat_map. exists AGone. split; [exact H|now left]. Qed.
Theorem principal_reported f : f_principal f = true -> In [T_PrincipalMappingNotReferenced] (forest_paths (expected_tree f)).
Proof.
  intro H. apply (forest_in _ (leaf T_PrincipalMappingNotReferenced)).
  - unfold expected_tree. rewrite H. cbn [when]. rewrite !in_app_iff. cbn [In]. tauto.
  - apply (path_self []).
Qed.
Theorem dso_reported f : f_dso f = true -> In [T_WriteDSODebugStreamFailed] (forest_paths (expected_tree f)).
Proof.
  intro H. apply (forest_in _ (leaf T_WriteDSODebugStreamFailed)).
  - unfold expected_tree. rewrite H. cbn [when]. rewrite !in_app_iff. cbn [In]. tauto.
  - apply (path_self []).
Qed.
