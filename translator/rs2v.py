#!/usr/bin/env python3
"""Translator: regenerates coq/theories/Generated.v from the Rust source of /repo on every run.

usage: rs2v.py <repo-root> <output.v>

Extracts (token-level, on comment-stripped text): numeric constants, the stream plan of
generate_dump with hard/soft classification, the two register-assignment tables and the two
FXSAVE-area tables (ptrace thread info, crash ucontext), the protection table of the memory-info
list, the fail-point enum.  Exits non-zero when the code no longer has the recognised shape
(./check then falls back to Generated.golden and says so)."""
import re, sys, pathlib

REPO = pathlib.Path(sys.argv[1]); OUT = sys.argv[2]
SRC = REPO / "src"

def strip_comments(s):
    s = re.sub(r"//[^\n]*", "", s)
    return re.sub(r"/\*.*?\*/", "", s, flags=re.S)

def const_expr(e):
    e = e.strip().replace("_", "")
    e = re.sub(r"(usize|u64|u32|isize|i64)\b", "", e)
    if not re.fullmatch(r"[0-9a-fA-Fx+\-*/ ()<]+", e): raise ValueError("unrecognised constant expression: " + e)
    return int(eval(e))

out = []
def emit(s): out.append(s)
def emit_const(name, val): emit(f"Definition {name} : N := {val}.")

REGS = "r15 r14 r13 r12 rbp rbx r11 r10 r9 r8 rax rcx rdx rsi rdi orig_rax rip cs eflags rsp ss fs_base gs_base ds es fs gs".split()
GREGS = "R8 R9 R10 R11 R12 R13 R14 R15 RDI RSI RBP RBX RDX RAX RCX RSP RIP EFL CSGSFS ERR TRAPNO OLDMASK CR2".split()
FPF = "cwd swd ftw fop rip rdp mxcsr mxcr_mask".split()
CFIELDS = ("context_flags mx_csr cs ds es fs gs ss eflags dr0 dr1 dr2 dr3 dr6 dr7 rax rcx rdx rbx rsp rbp rsi rdi "
           "r8 r9 r10 r11 r12 r13 r14 r15 rip").split()
XFIELDS = ("control_word status_word tag_word reserved1 error_opcode error_offset error_selector reserved2 data_offset "
           "data_selector reserved3 mx_csr mx_csr_mask").split()
FLAGS = {"CONTEXT_AMD64_CONTROL": 0x100001, "CONTEXT_AMD64_INTEGER": 0x100002, "CONTEXT_AMD64_SEGMENTS": 0x100004,
         "CONTEXT_AMD64_FLOATING_POINT": 0x100008, "CONTEXT_AMD64_DEBUG_REGISTERS": 0x100010,
         "CONTEXT_AMD64_FULL": 0x10000b, "CONTEXT_AMD64_ALL": 0x10001f}

def src_term(e):
    e = " ".join(e.split())
    m = re.fullmatch(r"self\.regs\.(\w+)(?: as (\w+))?", e)
    if m and m.group(1) in REGS: return f"SReg R_{m.group(1)}"
    m = re.fullmatch(r"self\.dregs\[(\d)\]", e)
    if m: return f"SDreg {m.group(1)}"
    m = re.fullmatch(r"gregs\[REG_(\w+) as usize\](?: as (\w+))?", e)
    if m and m.group(1) in GREGS: return f"SGreg G_{m.group(1)}"
    m = re.fullmatch(r"\(\(?gregs\[REG_(\w+) as usize\](?: >> (\d+))?\)? & (0x[0-9a-fA-F]+|\d+)\) as (\w+)", e)
    if m and m.group(1) in GREGS: return f"SGregShiftMask G_{m.group(1)} {m.group(2) or 0} {int(m.group(3), 0)}"
    m = re.fullmatch(r"fs\.(\w+)(?: as (\w+))?", e)
    if m and m.group(1) in FPF:
        cast = {"u8": 1, "u16": 2, "u32": 4, "u64": 8}.get(m.group(2) or "", 0)
        return f"SFp FP_{m.group(1)} {cast}"
    m = re.fullmatch(r"(\d+|0x[0-9a-fA-F]+)", e)
    if m: return f"SConst {int(e, 0)}"
    if "ContextFlagsAmd64" in e or "CONTEXT_AMD64" in e:
        names = re.findall(r"(CONTEXT_AMD64_\w+)(?:\.bits\(\))?", e)
        if names and all(n in FLAGS for n in names) and re.fullmatch(r"[\w:.() |]+", e):
            v = 0
            for n in names: v |= FLAGS[n]
            return f"SConst {v}"
    raise ValueError("unrecognised register expression: " + e)

def fn_body(s, marker):
    i = s.index(marker); j = s.index("{", i); depth = 0
    for k in range(j, len(s)):
        if s[k] == "{": depth += 1
        elif s[k] == "}":
            depth -= 1
            if depth == 0: return s[j:k + 1]
    raise ValueError("unbalanced braces after " + marker)

def reg_tables(path, marker, tag):
    s = strip_comments((SRC / path).read_text())
    body = fn_body(s, marker)
    # the FXSAVE struct literal
    lit_m = re.search(r"let mut float_save = [\w:]+\s*\{(.*?)\.\.Default::default\(\)", body, re.S)
    if not lit_m: raise ValueError("float_save literal not found in " + path)
    lit = lit_m.group(1)
    rows = []
    for m in re.finditer(r"out\.(\w+)\s*=\s*([^;]+);", body.replace(lit_m.group(0), "")):
        if m.group(1) not in CFIELDS: raise ValueError("unknown context field " + m.group(1))
        rows.append((m.group(1), src_term(m.group(2))))
    xrows = []
    for m in re.finditer(r"(\w+)\s*:\s*([^,]+),", lit):
        if m.group(1) not in XFIELDS: raise ValueError("unknown FXSAVE field " + m.group(1))
        xrows.append((m.group(1), src_term(m.group(2))))
    copies = re.findall(r"copy_u32_registers\(&mut float_save\.(\w+),\s*&fs\.(\w+)\)", body)
    if not re.search(r"out\.float_save\s*\.pwrite_with\(float_save,\s*0,", body): raise ValueError("float_save is not written at offset 0 in " + path)
    emit(f"Definition {tag}_table : list (cfield * src) := [\n  " + ";\n  ".join(f"(C_{d}, {t})" for d, t in rows) + "].")
    emit(f"Definition {tag}_xtable : list (xfield * src) := [\n  " + ";\n  ".join(f"(X_{d}, {t})" for d, t in xrows) + "].")
    emit(f"Definition {tag}_copies : list (xarray * fparray) := [" + "; ".join(f"(XA_{a}, FA_{b})" for a, b in copies) + "].")

emit("(* GENERATED by translator/rs2v.py from /repo/src on every ./check run - do not edit. *)")
emit("From Coq Require Import List NArith String.\nFrom MDW Require Import GenTypes.\nImport ListNotations.\nLocal Open Scope N_scope.\n")

tl = strip_comments((SRC / "linux/sections/thread_list_stream.rs").read_text())
for c in ["LIMIT_AVERAGE_THREAD_STACK_LENGTH", "LIMIT_BASE_THREAD_COUNT", "LIMIT_MAX_EXTRA_THREAD_STACK_LEN", "LIMIT_MINIDUMP_FUDGE_FACTOR"]:
    m = re.search(rf"const\s+{c}\s*:\s*\w+\s*=\s*([^;]+);", tl); emit_const(c, const_expr(m.group(1)))
m = re.search(r"let\s+ip_memory_size\s*:\s*usize\s*=\s*([^;]+);", tl); emit_const("IP_MEMORY_SIZE", const_expr(m.group(1)))

mw = strip_comments((SRC / "linux/minidump_writer.rs").read_text())
m = re.search(r"let\s+num_writers\s*=\s*(\d+)u32\s*;", mw); emit_const("NUM_WRITERS", int(m.group(1)))
body = mw[mw.index("fn generate_dump"):mw.index("fn write_file")]
plan = []
pat = (r"(thread_list_stream|mappings|app_memory|memory_list_stream|exception_stream|systeminfo_stream|memory_info_list_stream|"
       r"thread_names_stream|handle_data_stream)::write\(|dso_debug::write_dso_debug_stream\(|"
       r"write_file\(\s*buffer,\s*(?:&format!\()?\"([^\"]+)\"|dumper\.resume_threads\(|write_soft_errors\(")
for m in re.finditer(pat, body):
    start = m.start(); stmt_start = body.rfind(";", 0, start) + 1; prefix = body[stmt_start:start]
    soft = "match" in prefix or ".or_else" in prefix
    tok = m.group(0)
    if m.group(1): name = m.group(1)
    elif m.group(2): name = "file_" + re.sub(r"[^a-z]+", "_", m.group(2).replace("{}", "pid").lower()).strip("_")
    elif "dso_debug" in tok: name = "dso_debug"
    elif "resume_threads" in tok: name = "resume_threads"
    else: name = "soft_errors"
    if m.group(2) and ".or_else" in prefix: continue   # the fallback file of the same step
    plan.append((name, soft))
# the stream type each step gives its directory entry, by the name used in the source
SECTION_FILES = {"thread_list_stream": "linux/sections/thread_list_stream.rs", "mappings": "linux/sections/mappings.rs", "memory_list_stream": "linux/sections/memory_list_stream.rs",
                 "exception_stream": "linux/sections/exception_stream.rs", "systeminfo_stream": "linux/sections/systeminfo_stream.rs",
                 "memory_info_list_stream": "linux/sections/memory_info_list_stream.rs", "thread_names_stream": "linux/sections/thread_names_stream.rs",
                 "handle_data_stream": "linux/sections/handle_data_stream.rs", "dso_debug": "linux/dso_debug.rs"}
step_types = []
matches = list(re.finditer(pat, body))
for i, m in enumerate(matches):
    if m.group(2) and ".or_else" in body[body.rfind(";", 0, m.start()) + 1:m.start()]: continue
    tok = m.group(0)
    name = m.group(1) or ("file_" + re.sub(r"[^a-z]+", "_", m.group(2).replace("{}", "pid").lower()).strip("_") if m.group(2) else "dso_debug" if "dso_debug" in tok else "resume_threads" if "resume_threads" in tok else "soft_errors")
    if name in SECTION_FILES:
        t = strip_comments((SRC / SECTION_FILES[name]).read_text())
        tys = sorted(set(re.findall(r"MDStreamType::(\w+)", t)))
        if len(tys) != 1: raise ValueError(f"{name}: expected exactly one stream type in its file, found {tys}")
        step_types.append((name, tys[0]))
    elif name in ("app_memory", "resume_threads"):
        continue
    else:
        end = body.find("dir_section.write_to_file", m.end())
        tys = re.findall(r"MDStreamType::(\w+)", body[m.end():end if end > 0 else len(body)])
        if len(tys) != 1: raise ValueError(f"{name}: expected exactly one stream type before its flush, found {tys}")
        step_types.append((name, tys[0]))
emit("Definition step_stream_names : list (step * string) := [\n  " + ";\n  ".join(f'(St_{n}, "{t}"%string)' for n, t in step_types) + "].")
emit("Definition stream_plan : list (step * bool) := [  (* step, best-effort? *)\n  " +
     ";\n  ".join(f"(St_{n}, {'true' if k else 'false'})" for n, k in plan) + "].")

pd = strip_comments((SRC / "linux/ptrace_dumper.rs").read_text())
m = re.search(r"saturating_add\(([^)]+)\)", pd); emit_const("GUARD_DISTANCE", const_expr(m.group(1)))
m = re.search(r"defaced\s*=\s*(0x[0-9a-fA-F_]+)usize", pd); emit_const("DEFACED_WORD", const_expr(m.group(1)))
m = re.search(r"let\s+small_int_magnitude\s*:\s*isize\s*=\s*(\d+);", pd); emit_const("SMALL_INT_MAGNITUDE", int(m.group(1)))
m = re.search(r"let\s+test_bits\s*=\s*(\d+);", pd); emit_const("TEST_BITS", int(m.group(1)))
m = re.search(r"let\s+shift\s*=\s*([^;]+);", pd); emit_const("FILTER_SHIFT", const_expr(m.group(1)))

reg_tables("linux/thread_info/x86.rs", '#[cfg(target_arch = "x86_64")]\n    pub fn fill_cpu_context', "ptrace")
reg_tables("linux/crash_context/x86_64.rs", "pub fn fill_cpu_context", "ucontext")

mi = strip_comments((SRC / "linux/sections/memory_info_list_stream.rs").read_text())
rows = re.findall(r"\(([^)]*)\)\s*=>\s*MemoryProtection::(\w+)", mi[mi.index("fn get_memory_protection"):])
def alts(x):
    x = x.strip()
    if x == "_": return ["true", "false"]
    v = [t.strip() for t in x.split("|")]
    if not all(t in ("true", "false") for t in v): raise ValueError("unrecognised protection pattern: " + x)
    return v
prow = []
for a, p in rows:
    r, w, x = a.split(",")
    for rv in alts(r):
        for wv in alts(w):
            for xv in alts(x):
                prow.append(f"({rv}, {wv}, {xv}, P_{p})")
emit("Definition protection_table : list (bool * bool * bool * prot) := [\n  " + ";\n  ".join(prow) + "].")
lib = strip_comments((SRC / "lib.rs").read_text())
fps = re.findall(r"^\s+(\w+),", lib[lib.index("enum FailSpotName"):], flags=re.M)
emit("Definition fail_points : list failpoint := [" + "; ".join("FP_" + f for f in fps) + "].")
# ---- C19: which fields of the writer does a dump request modify, and which does it reset first? ----
# functions of impl MinidumpWriter: the builder-style ones return `&mut Self` (configuration by the caller); every other
# function of that file, and every section writer (they receive `config: &mut MinidumpWriter`), runs during a dump
MUT_METHODS = ("push|clear|take|insert|extend|retain|truncate|pop|remove|append|get_or_insert_with|get_or_insert|replace|drain|"
               "sort|sort_by|sort_by_key|dedup|swap|swap_remove|reserve|resize|split_off|push_str|set")
def mutated_fields(text):
    f = set(re.findall(r"\b(?:self|config)\s*\.\s*(\w+)\s*(?:=(?!=)|\+=|-=|\|=|&=)", text))
    f |= set(re.findall(r"\b(?:self|config)\s*\.\s*(\w+)\s*\.\s*(?:%s)\s*\(" % MUT_METHODS, text))
    f |= set(re.findall(r"&mut\s+(?:self|config)\s*\.\s*(\w+)", text))
    return f
def functions(text):
    """(signature, body) of every fn in the text (brace matching on comment-stripped source)"""
    res = []
    for m in re.finditer(r"\bfn\s+(\w+)", text):
        i = text.find("{", m.end())
        semi = text.find(";", m.end())
        if i < 0 or (0 <= semi < i): continue
        depth, j = 0, i
        while j < len(text):
            if text[j] == "{": depth += 1
            elif text[j] == "}":
                depth -= 1
                if depth == 0: break
            j += 1
        res.append((m.group(1), text[m.start():i], text[i:j + 1]))
    return res
mw = strip_comments((SRC / "linux/minidump_writer.rs").read_text())
impl_at = mw.index("impl MinidumpWriter")
dump_time, reset = set(), None
for name, sig, body in functions(mw[impl_at:]):
    if re.search(r"->\s*&mut\s+Self", sig) or name == "new": continue
    if name == "dump":
        cut = body.find("PtraceDumper::")
        if cut < 0: raise ValueError("dump(): no PtraceDumper construction found")
        reset = mutated_fields(body[:cut])
    dump_time |= mutated_fields(body)
if reset is None: raise ValueError("MinidumpWriter::dump not found")
for f in sorted((SRC / "linux/sections").glob("*.rs")):
    t = strip_comments(f.read_text())
    if re.search(r"config\s*:\s*&mut\s+MinidumpWriter", t): dump_time |= mutated_fields(t)
emit("Definition dump_mutated_fields : list string := [" + "; ".join('"%s"' % x for x in sorted(dump_time)) + "]%string.")
emit("Definition dump_reset_fields : list string := [" + "; ".join('"%s"' % x for x in sorted(reset)) + "]%string.")

# ---- the memory-writer operations of every function that builds a stream, in textual order
MEMOPS = [("alloc_with_val", r"MemoryWriter(?:::<[^>]*>)?::alloc_with_val\s*\("), ("alloc", r"MemoryWriter(?:::<[^>]*>)?::alloc\s*\("),
          ("alloc_array", r"MemoryArrayWriter(?:::<[^>]*>)?::alloc_array\s*\("), ("alloc_from_array", r"MemoryArrayWriter(?:::<[^>]*>)?::alloc_from_array\s*\("),
          ("alloc_from_iter", r"MemoryArrayWriter(?:::<[^>]*>)?::alloc_from_iter\s*\("), ("write_bytes", r"MemoryArrayWriter(?:::<[^>]*>)?::write_bytes\s*\("),
          ("set_value_at", r"\.\s*set_value_at\s*\("), ("set_value", r"\.\s*set_value\s*\("),
          ("write_string", r"\bwrite_string_to_location\s*\("), ("write_all", r"\bbuffer\s*\.\s*write_all\s*\("),
          ("dir_flush", r"\bdir_section\s*\.\s*write_to_file\s*\(")]
def memops(body):
    hits = []
    for name, rx in MEMOPS:
        for m in re.finditer(rx, body): hits.append((m.start(), name))
    return [n for _, n in sorted(hits)]
builders = [("linux/sections/thread_list_stream.rs", None), ("linux/sections/mappings.rs", None), ("linux/sections/app_memory.rs", None),
            ("linux/sections/memory_list_stream.rs", None), ("linux/sections/exception_stream.rs", None), ("linux/sections/systeminfo_stream.rs", None),
            ("linux/sections/memory_info_list_stream.rs", None), ("linux/sections/thread_names_stream.rs", None), ("linux/sections/handle_data_stream.rs", None),
            ("linux/dso_debug.rs", None), ("linux/minidump_writer.rs", ("generate_dump", "write_file", "write_soft_errors")), ("mem_writer.rs", ("write_string_to_location",)), ("dir_section.rs", ("new", "dump_dir_entry"))]
rows = []
for path, only in builders:
    t = strip_comments((SRC / path).read_text())
    for name, sig, body in functions(t):
        if only is not None and name not in only: continue
        ops = memops(body)
        if ops: rows.append((path.split("/")[-1][:-3] + "::" + name, ops))
emit("Definition section_ops : list (string * list memop) := [\n  " +
     ";\n  ".join('("%s"%%string, [%s])' % (k, "; ".join("Op_" + o for o in ops)) for k, ops in rows) + "].")
open(OUT, "w").write("\n".join(out) + "\n")
